#!/venv/bin/python
"""Regenerate /verif/MANIFEST.json from the table below (only checks whose module exists are claimed)."""
import json
import os

V = os.path.dirname(os.path.dirname(os.path.abspath(__file__)))

SIM = "trusted base: the device simulator (advf/sim.py) as a faithful adbd, the independent codec (advf/wire.py), the virtual clock bound to adb_device.time / adb_device_async.time"

CHECKS = {
    "C01": ("exploration", "property-based testing (Hypothesis) against a device-simulator oracle",
            "Generated outputs x chunkings x read fragmentations x ops x both APIs; the result must equal the simulator's own per-stream record of what it delivered. Exploration, not exhaustive: the input space is unbounded.",
            SIM, "4 C01"),
    "C02": ("exploration", "property-based round-trip against an independent decoder + stream-level decoding of generated sessions",
            "AdbMessage.pack() for generated (cmd,arg0,arg1,payload) is decoded by an independent parser and every field compared; the complete bulk_write byte stream of generated sessions must decode without a framing error.",
            SIM, "4 C02"),
    "C03": ("exploration", "metamorphic property-based testing (fragmented vs whole reads) + corruption injection + coverage-guided differential fuzzing (atheris) of connect()",
            "Same scenario with and without read fragmentation must give identical results and host bytes; over-read rule observed at the transport; single-byte/bit corruptions must raise InvalidChecksumError; byte-level fuzzing of the inbound parser against a reference parser.",
            SIM + "; atheris campaign is pinned only approximately by -seed", "4 C03"),
    "C04": ("exploration", "property-based testing with a protocol monitor (device model implementing AOSP protocol.txt stream rules) as oracle",
            "Generated operation sequences x device choices; every host packet is judged by the monitor inside the simulator (ids, one OKAY per WRTE, stop-and-wait, CLSE rules).",
            SIM, "4 C04"),
    "C05": ("exploration", "property-based testing against a reference handshake model",
            "Generated key sets, device policies, fresh tokens, stray packets, repeated connects; host packet log compared with a reference model of the CNXN/AUTH state machine.",
            SIM + "; fake signers whose signatures name (key, token); two real PythonRSASigner keys in the thorough tier", "4 C05"),
    "C06": ("exploration", "schedule fuzzing: harness-owned cooperative scheduler (threads and asyncio tasks) with generated and preemption-bounded enumerated schedules",
            "2-3 concurrent operations under generated schedules and complete bounded-preemption enumeration; each result must equal the simulator's per-stream record; deadlock = no runnable worker.",
            SIM + "; yield points at lock acquire/release and transport calls (line-level inside the I/O manager in the thorough tier); switches inside C calls are not modelled", "4 C06"),
    "C07": ("exploration", "property-based testing; the simulator's sync service reassembles the pushed stream",
            "Generated contents/sizes (boundary tables), maxdata, paths, modes, mtimes, source kinds, callbacks; decoded SEND/DATA/DONE stream must equal the source; size limits checked per packet.",
            SIM, "4 C07"),
    "C08": ("exploration", "property-based testing against the simulator's file content",
            "Generated contents, DATA record size sequences, WRTE boundaries (incl. inside sync headers), read fragmentation, destinations, callbacks.",
            SIM, "4 C08"),
    "C09": ("exploration", "property-based testing against the simulator's directory/stat tables",
            "Generated DENT lists and STAT triples with arbitrary names and 32-bit fields, arbitrary packetisation.",
            SIM, "4 C09"),
    "C10": ("exploration", "property-based testing over failure points, reason strings, packetisations and FAIL/OKAY orderings",
            "Generated rejection points (SEND / k-th DATA / DONE / RECV record j), lags of the FAIL relative to later OKAYs, reasons; oracle: documented exception type carrying the reason, never success, never a timeout once the FAIL was delivered.",
            SIM, "4 C10"),
    "C11": ("fault_enumeration", "exhaustive stall-point enumeration under a virtual clock + Hypothesis for off-grid timeouts",
            "Every operation x every awaited device packet x every stall kind x a grid of timeout values: the call must raise a timeout error within the stated bound of virtual time; watchdog = non-termination.",
            SIM, "4 C11"),
    "C12": ("fault_enumeration", "exhaustive single-fault injection over transport-call indexes + sampled fault pairs",
            "Every transport-call index of a scenario family x every fault kind, then close/reconnect/replay against a healthy device with a lock that fails instead of blocking.",
            SIM, "4 C12"),
    "C13": ("exploration", "exhaustive enumeration of short API histories + stateful (rule-based) Hypothesis machine against a two-state model",
            "All histories up to length 3 (quick) / 4-5 (thorough) over connect-ok/connect-fail kinds/close/each operation; model: available flag, AdbConnectionError/DevicePathInvalidError, zero bytes written, no local file created.",
            SIM, "4 C13"),
    "C14": ("exploration", "schedule fuzzing of concurrent opens (line/opcode-level preemption in id allocation) + sequential wrap-around histories",
            "Counter starts near 0 and 2^32, 2-3 concurrent opens under generated schedules; monitor: OPEN ids in [1,2^32-1], unique among live streams.",
            SIM + "; preemption at traced line/opcode granularity inside _open", "4 C14"),
    "C15": ("exploration", "metamorphic property-based testing (short-write vs full-write transport) + real loopback TCP with constrained socket buffers",
            "Generated per-call write capacities; the device-side byte stream must decode to the same packets as with unlimited capacity, or the call raised. Real-socket half: large pushes with SO_SNDBUF/SO_RCVBUF=4096 and a slow reader.",
            SIM + "; kernel socket behaviour for the loopback half", "4 C15"),
    "C16": ("exploration", "differential testing: every generated scenario run through AdbDevice and AdbDeviceAsync against identical simulators",
            "Equal host byte streams, results and exception types per operation, equal final availability; TcpTransport vs TcpTransportAsync on the same generated peer script.",
            SIM, "4 C16"),
    "C17": ("exploration", "property-based testing with independent integer-RSA verification and blob decoding",
            "Fresh keygen() keys and seeded keys; blob fields recomputed independently; every signer's signature must equal the deterministic EMSA-PKCS1-v1_5(SHA-1 DigestInfo || token) signature and verify with cryptography.",
            "trusted base: Python integer arithmetic, cryptography's verifier; OpenSSL RNG for keygen() (replay stores the PEM)", "4 C17"),
    "C18": ("exploration", "property-based testing on real loopback sockets with generated peer scripts",
            "Generated fragmentations/pauses/request sizes/timeouts; byte-exact delivery, size limits, timeout lower bounds, idempotent close, reconnect; whole sessions vs the in-memory run.",
            "kernel loopback TCP; only lower wall-clock bounds asserted, watchdog expiry = inconclusive", "4 C18"),
    "C19": ("exploration", "exhaustive enumeration of mutator sequences with all observers at every node + stateful Hypothesis machine, against a reference model",
            "ids {0,1,2}^2 depth 3 and ids {0,1}^2 depth 5 completely, long random sequences over larger id domains; relational oracle where the statement allows a choice.",
            "reference model in advf/checks/c19.py", "4 C19"),
    "C20": ("exploration", "property-based testing and fault enumeration on a fake usb1 module injected via sys.modules",
            "Generated timeouts, read sizes, short transfers, a backend error at every call index, use-after-close, whole sessions via AdbDeviceUsb wired to the simulator.",
            "trusted base: fidelity of the hand-written fake to python-libusb1's documented API", "4 C20"),
}


def main():
    checks = []
    na = []
    for pid in sorted(CHECKS):
        level, technique, text, note, ref = CHECKS[pid]
        if os.path.exists(os.path.join(V, "advf", "checks", pid.lower() + ".py")):
            checks.append({
                "property_id": pid,
                "quick_cmd": "/venv/bin/python -m advf check %s --tier quick" % pid,
                "thorough_cmd": "/venv/bin/python -m advf check %s --tier thorough" % pid,
                "evidence_file": "/verif/evidence/%s.json" % pid,
                "replay_cmd_template": "/venv/bin/python -m advf replay {path}",
                "engine": "advf",
                "level_claimed": {"category": level, "text": text, "design_ref": "DESIGN.md section " + ref},
                "level_note": note,
                "technique": technique,
            })
        else:
            na.append({"property_id": pid, "reason": "check not built yet (work in progress; the design in DESIGN.md section %s applies)" % ref})
    m = {
        "version": 1,
        "setup_cmd": "(/venv/bin/python -c 'import hypothesis' || /venv/bin/pip install --no-index --find-links /opt/veriftools/wheels hypothesis) && (test -d /verif/.deps/atheris || /venv/bin/pip install -q --no-index --find-links /opt/veriftools/wheels --target /verif/.deps atheris)",
        "hooks": {
            "guard": "ADB_SHELL_VERIF",
            "enable": "no source hooks: checks import adb_shell from /repo's working tree and rebind module attributes (Lock, time, sys.modules['usb1']) from outside; the guard name is reserved and unused",
            "baseline_off_cmd": "cd /repo && /venv/bin/python -m pytest -ra -q -p no:cacheprovider --timeout=900 --continue-on-collection-errors",
            "source_commits": [],
            "add_only": True,
        },
        "engines": [{"name": "advf", "path": "/verif/advf", "serves_properties": [c["property_id"] for c in checks],
                     "kind_free_text": "Hypothesis property-based testing, exhaustive small-domain enumeration and coverage-guided fuzzing against an executable adbd model"}],
        "checks": checks,
        "notes": "All checks: cwd=/verif, VERIF_SEED honoured, exit 0/1/2 (2 = harness error, never a VIOLATION line). Known findings: /verif/known_findings.json.",
        "not_applicable": na,
    }
    with open(os.path.join(V, "MANIFEST.json"), "w") as f:
        json.dump(m, f, indent=1)
    print("claimed:", [c["property_id"] for c in checks])


if __name__ == "__main__":
    main()
