#!/venv/bin/python
"""Import, confirm and evaluate seeded breakages written by independent sub-agents.

usage:
  tools/seeded.py import <worktree> <PROP>        confirm each demo/patch_X.diff in the scratch worktree (suite passes, demo fails with / passes without),
                                                   copy it to /verif/seeded/<PROP>-<X>/ and run the property's quick check against it
  tools/seeded.py run [<PROP>-<X> ...] [--tier quick|thorough] [--all-checks]
                                                   re-run checks against stored seeded changes (scratch copy of /repo + patch, via ADVF_REPO)
"""
import json
import os
import shutil
import subprocess
import sys
import tempfile

V = os.path.dirname(os.path.dirname(os.path.abspath(__file__)))
SEEDED = os.path.join(V, "seeded")
PY = "/venv/bin/python"


def sh(cmd, cwd=None, env=None, timeout=1800):
    r = subprocess.run(cmd, cwd=cwd, env=env, capture_output=True, text=True, timeout=timeout)
    return r.returncode, (r.stdout + r.stderr)


def confirm(wt, letter):
    """(ok, notes) -- apply patch in the scratch worktree, suite, demo with/without."""
    patch = os.path.join(wt, "demo", "patch_%s.diff" % letter)
    demo = os.path.join(wt, "demo", "demo_%s.py" % letter)
    env = dict(os.environ, PYTHONPATH=wt, PYTHONDONTWRITEBYTECODE="1")
    notes = {}
    sh(["git", "checkout", "--", "adb_shell"], cwd=wt)
    rc0, out0 = sh([PY, demo], cwd=wt, env=env, timeout=600)
    notes["demo_without_change_rc"] = rc0
    rc, out = sh(["git", "apply", patch], cwd=wt)
    if rc != 0:
        notes["apply_error"] = out[-400:]
        return False, notes
    try:
        rcs, outs = sh([PY, "-m", "pytest", "-q", "-p", "no:cacheprovider", "tests"], cwd=wt, env=env, timeout=900)
        notes["suite_tail"] = outs.strip().splitlines()[-1] if outs.strip() else ""
        notes["suite_rc"] = rcs
        rc1, out1 = sh([PY, demo], cwd=wt, env=env, timeout=600)
        notes["demo_with_change_rc"] = rc1
        notes["demo_with_change_tail"] = out1.strip()[-600:]
    finally:
        sh(["git", "checkout", "--", "adb_shell"], cwd=wt)
        nowhere = os.path.join(wt, "NOWHERE")
        if os.path.exists(nowhere):
            os.remove(nowhere)
    ok = (rc0 == 0 and rcs == 0 and rc1 != 0)
    return ok, notes


def run_checks(patch, props, tier="quick"):
    """Apply `patch` to a scratch copy of /repo's adb_shell and run the named checks against it."""
    tmp = tempfile.mkdtemp(prefix="advf-seed-")
    res = {}
    try:
        shutil.copytree("/repo/adb_shell", os.path.join(tmp, "adb_shell"), ignore=shutil.ignore_patterns("__pycache__"))
        rc, out = sh(["patch", "-p1", "-s", "-i", patch], cwd=tmp)
        if rc != 0:
            return {"error": "patch does not apply to the current /repo tree: " + out[-300:]}
        for p in props:
            env = dict(os.environ, ADVF_REPO=tmp, ADVF_OUT=os.path.join(tmp, "out"))
            try:
                rc, out = sh([PY, "-W", "ignore", "-m", "advf", "check", p, "--tier", tier], cwd=V, env=env, timeout=3600)
            except subprocess.TimeoutExpired:
                res[p] = {"verdict": "TIMEOUT"}
                subprocess.run(["pkill", "-f", "advf check %s" % p])
                continue
            rules = [l.strip() for l in out.splitlines() if l.strip().startswith("part=")]
            res[p] = {"verdict": "DETECTED" if rc == 1 else ("missed" if rc == 0 else "HARNESS-ERROR"), "rules": rules[:4]}
            if rc not in (0, 1):
                res[p]["tail"] = out[-800:]
    finally:
        shutil.rmtree(tmp, ignore_errors=True)
    return res


def all_props():
    with open(os.path.join(V, "MANIFEST.json")) as f:
        return [c["property_id"] for c in json.load(f)["checks"]]


def cmd_import(wt, prop, rename=None):
    rename = rename or {}
    letters = [x for x in "ABCDEFGHIJKLMNOP" if os.path.exists(os.path.join(wt, "demo", "patch_%s.diff" % x))]
    if not letters:
        print("%s: no patch" % prop)
    for letter in letters:
        patch = os.path.join(wt, "demo", "patch_%s.diff" % letter)
        ok, notes = confirm(wt, letter)
        name = "%s-%s" % (prop, rename.get(letter, letter))
        if not ok:
            print("%s: NOT CONFIRMED %r" % (name, notes))
            continue
        d = os.path.join(SEEDED, name)
        os.makedirs(d, exist_ok=True)
        shutil.copy(patch, os.path.join(d, "patch.diff"))
        shutil.copy(os.path.join(wt, "demo", "demo_%s.py" % letter), os.path.join(d, "demo.py"))
        notes_md = os.path.join(wt, "demo", "NOTES.md")
        if os.path.exists(notes_md):
            shutil.copy(notes_md, os.path.join(d, "NOTES-agent.md"))
        res = run_checks(os.path.join(d, "patch.diff"), [prop])
        meta = {"id": name, "breaks_property": prop, "source": "independent sub-agent given only the property text and a scratch worktree",
                "confirmed": notes, "what_i_ran": ["suite with the change in the scratch worktree (must pass)", "demo with the change (must exit non-zero)", "demo without the change (must exit 0)",
                                                   "quick check of %s against /repo's adb_shell + patch (scratch copy via ADVF_REPO)" % prop],
                "needs_to_manifest": "see NOTES-agent.md", "checks": {"quick": res}}
        with open(os.path.join(d, "meta.json"), "w") as f:
            json.dump(meta, f, indent=1)
        print("%s: confirmed; %s" % (name, json.dumps(res)))


def cmd_run(names, tier, all_checks):
    names = names or sorted(os.listdir(SEEDED))
    for name in names:
        d = os.path.join(SEEDED, name)
        mp = os.path.join(d, "meta.json")
        if not os.path.exists(mp):
            continue
        with open(mp) as f:
            meta = json.load(f)
        props = all_props() if all_checks else [meta["breaks_property"]]
        res = run_checks(os.path.join(d, "patch.diff"), props, tier)
        meta.setdefault("checks", {})[tier + ("-all" if all_checks else "")] = res
        with open(mp, "w") as f:
            json.dump(meta, f, indent=1)
        det = [p for p, r in res.items() if isinstance(r, dict) and r.get("verdict") == "DETECTED"]
        print("%s [%s]: target %s; detected by %s" % (name, tier, res.get(meta["breaks_property"], {}).get("verdict") if isinstance(res.get(meta["breaks_property"]), dict) else res, det))


if __name__ == "__main__":
    a = sys.argv[1:]
    if a and a[0] == "import":
        # optional 4th argument "CD": store patch_A/patch_B of a later round as <PROP>-C / <PROP>-D
        cmd_import(a[1], a[2], dict(zip("AB", a[3])) if len(a) > 3 else None)
    elif a and a[0] == "run":
        tier = "quick"
        allc = False
        names = []
        rest = a[1:]
        while rest:
            x = rest.pop(0)
            if x == "--tier":
                tier = rest.pop(0)
            elif x == "--all-checks":
                allc = True
            else:
                names.append(x)
        cmd_run(names, tier, allc)
    else:
        print(__doc__)
