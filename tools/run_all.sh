#!/bin/bash
# run every registered check (quick tier by default) and summarise; usage: tools/run_all.sh [quick|thorough] [seed]
tier=${1:-quick}; seed=${2:-1}
cd /verif
for id in $(/venv/bin/python -c "import json;print(' '.join(c['property_id'] for c in json.load(open('MANIFEST.json'))['checks']))"); do
  s=$(date +%s)
  out=$(VERIF_SEED=$seed /venv/bin/python -m advf check $id --tier $tier 2>&1); rc=$?
  echo "$id rc=$rc $(( $(date +%s) - s ))s :: $(echo "$out" | grep -E "^(C[0-9]+ |VIOLATION|KNOWN-FINDING|HARNESS)" | cut -c1-160 | tr '\n' '|')"
done
