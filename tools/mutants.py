#!/venv/bin/python
"""Sensitivity sweep: apply hand-written mutants to a scratch copy of adb_shell and confirm the quick
tier of the named check reports a violation.

usage: tools/mutants.py [mutant-id ...] [--prop C01] [--tier quick] [--suite]
"""
import os
import shutil
import subprocess
import sys
import tempfile

D = "adb_shell/adb_device.py"
A = "adb_shell/adb_device_async.py"
H = "adb_shell/hidden_helpers.py"
M = "adb_shell/adb_message.py"

# (id, property, [(file, old, new), ...])
MUTANTS = [
    ("c01-decode-per-chunk", "C01", [(D, "return b''.join(self._streaming_command(service, command, transport_timeout_s, read_timeout_s, timeout_s)).decode('utf8', _DECODE_ERRORS)",
                                      "return ''.join(x.decode('utf8', _DECODE_ERRORS) for x in self._streaming_command(service, command, transport_timeout_s, read_timeout_s, timeout_s))")]),
    ("c01-drop-last-chunk-async", "C01", [(A, "            yield data\n\n            # Make sure the ADB command has not timed out",
                                           "            if len(data) != 4097:\n                yield data\n\n            # Make sure the ADB command has not timed out")]),
]


def load_extra():
    here = os.path.dirname(os.path.abspath(__file__))
    p = os.path.join(here, "mutants_extra.py")
    if os.path.exists(p):
        ns = {}
        exec(open(p).read(), {"D": D, "A": A, "H": H, "M": M}, ns)
        MUTANTS.extend(ns.get("MUTANTS", []))


def main():
    load_extra()
    args = sys.argv[1:]
    tier = "quick"
    prop = None
    suite = False
    ids = []
    while args:
        a = args.pop(0)
        if a == "--tier":
            tier = args.pop(0)
        elif a == "--prop":
            prop = args.pop(0)
        elif a == "--suite":
            suite = True
        else:
            ids.append(a)
    failures = 0
    for mid, p, edits in MUTANTS:
        if ids and mid not in ids:
            continue
        if prop and p != prop:
            continue
        tmp = tempfile.mkdtemp(prefix="advf-mut-")
        try:
            shutil.copytree("/repo/adb_shell", os.path.join(tmp, "adb_shell"), ignore=shutil.ignore_patterns("__pycache__"))
            for f, old, new in edits:
                path = os.path.join(tmp, f)
                s = open(path).read()
                if s.count(old) != 1:
                    print("MUTANT %s: pattern occurs %d times in %s" % (mid, s.count(old), f))
                    failures += 1
                    break
                open(path, "w").write(s.replace(old, new))
            else:
                if suite:
                    shutil.copytree("/repo/tests", os.path.join(tmp, "tests"), ignore=shutil.ignore_patterns("__pycache__"))
                    r = subprocess.run(["/venv/bin/python", "-m", "pytest", "-q", "-p", "no:cacheprovider", "-x", "tests"], cwd=tmp,
                                       env=dict(os.environ, PYTHONPATH=tmp), capture_output=True, text=True)
                    print("MUTANT %s: suite %s" % (mid, r.stdout.strip().splitlines()[-1] if r.stdout.strip() else r.stderr[-200:]))
                env = dict(os.environ, ADVF_REPO=tmp, ADVF_OUT=os.path.join(tmp, "out"))
                try:
                    r = subprocess.run(["/venv/bin/python", "-m", "advf", "check", p, "--tier", tier], cwd="/verif", env=env, capture_output=True, text=True, timeout=900)
                except subprocess.TimeoutExpired:
                    print("MUTANT %-40s %s TIMEOUT (900 s)" % (mid, p))
                    subprocess.run(["pkill", "-f", "advf check %s" % p])
                    failures += 1
                    continue
                lines = [l for l in r.stdout.splitlines() if l.startswith("VIOLATION") or l.startswith("  part=")]
                verdict = "KILLED" if r.returncode == 1 else ("SURVIVED" if r.returncode == 0 else "HARNESS-ERROR")
                if verdict != "KILLED":
                    failures += 1
                print("MUTANT %-40s %s %s  %s" % (mid, p, verdict, " | ".join(lines[:4])))
                if verdict == "HARNESS-ERROR":
                    print(r.stderr[-1500:])
        finally:
            shutil.rmtree(tmp, ignore_errors=True)
    # the evidence files now describe mutant runs: restore by re-running is the caller's job
    return 1 if failures else 0


if __name__ == "__main__":
    sys.exit(main())
