MUTANTS = [
    ("c02-checksum-16bit", "C02", [(M, "return total & 0xFFFFFFFF", "return total & 0xFFFF")]),
    ("c02-magic-wrong-word", "C02", [(M, "self.magic = self.command ^ 0xFFFFFFFF", "self.magic = (self.command ^ 0xFFFFFFFF) if command != constants.CLSE else (arg0 ^ 0xFFFFFFFF)")]),
    ("c02-len-plus-one-bytearray", "C02", [(M, "self.arg1, len(self.data), self.checksum, self.magic)", "self.arg1, len(self.data) + (1 if isinstance(self.data, bytearray) and len(self.data) == 4096 else 0), self.checksum, self.magic)")]),
    ("c02-args-swapped-high", "C02", [(M, "self.command, self.arg0, self.arg1, len(self.data)", "self.command, *((self.arg1, self.arg0) if self.arg0 >= 2**31 else (self.arg0, self.arg1)), len(self.data)")]),
    ("c04-okay-ids-swapped", "C04", [(D, "msg = AdbMessage(constants.OKAY, adb_info.local_id, adb_info.remote_id)", "msg = AdbMessage(constants.OKAY, adb_info.remote_id, adb_info.local_id)")]),
    ("c04-ack-okay-too", "C04", [(A, "        if cmd == constants.WRTE:\n            await self._okay(adb_info)", "        if cmd in (constants.WRTE, constants.OKAY) and adb_info.remote_id:\n            await self._okay(adb_info)")]),
    ("c04-clse-twice", "C04", [(D, "                msg = AdbMessage(constants.CLSE, adb_info.local_id, adb_info.remote_id)\n                self._io_manager.send(msg, adb_info)\n                break",
                                "                msg = AdbMessage(constants.CLSE, adb_info.local_id, adb_info.remote_id)\n                self._io_manager.send(msg, adb_info)\n                self._io_manager.send(msg, adb_info)\n                break")]),
    ("c04-flush-no-wait", "C04", [(D, "            cmd, data = self._read_until([constants.OKAY, constants.WRTE], adb_info)\n            if cmd == constants.OKAY:\n                break\n\n            filesync_info.recv_buffer += data",
                                   "            break")]),
    ("c04-no-ack-on-last-wrte", "C04", [(D, "        if cmd == constants.WRTE:\n            self._okay(adb_info)", "        if cmd == constants.WRTE and len(data) != 3:\n            self._okay(adb_info)")]),
]
MUTANTS += [
    ("c07-chunk-is-maxdata", "C07", [(D, "return min(constants.MAX_CHUNK_SIZE, self._maxdata // 2) or constants.MAX_PUSH_DATA", "return min(constants.MAX_CHUNK_SIZE * 2, self._maxdata // 2) or constants.MAX_PUSH_DATA")]),
    ("c07-buffer-forgets-header", "C07", [(H, "added_len = self.recv_message_size + data_len", "added_len = data_len")]),
    ("c07-buffer-le", "C07", [(H, "return self.send_idx + added_len < self._maxdata", "return self.send_idx + added_len <= self._maxdata + 1")]),
    ("c07-done-size-zero-async", "C07", [(A, "await self._filesync_send(constants.DONE, adb_info, filesync_info, size=mtime)", "await self._filesync_send(constants.DONE, adb_info, filesync_info, size=mtime if mtime < 2**31 else 0)")]),
    ("c07-mode-missing", "C07", [(D, "fileinfo = ('{},{}'.format(device_path, int(st_mode))).encode('utf-8')", "fileinfo = ('{},{}'.format(device_path, int(st_mode) & 0o777777)).encode('utf-8')")]),
    ("c07-revert-F2", "C07", [(H, "[os.path.join(local_path, f) for f in filenames]", "filenames")]),
    ("c07-revert-F4", "C07", [(D, "total_bytes = len(stream.getbuffer()) if isinstance(stream, BytesIO) else os.fstat(stream.fileno()).st_size", "total_bytes = os.fstat(stream.fileno()).st_size")]),
    ("c07-callback-aborts", "C07", [(D, "                    try:\n                        progress_callback(device_path, len(data), total_bytes)\n                    except:  # noqa pylint: disable=bare-except\n                        pass\n            else:\n                break",
                                     "                    try:\n                        progress_callback(device_path, len(data), total_bytes)\n                    except:  # noqa pylint: disable=bare-except\n                        break\n            else:\n                break")]),
    ("c07-return-before-okay", "C07", [(D, "        for cmd_id, _, data in self._filesync_read_until([], [constants.OKAY, constants.FAIL], adb_info, filesync_info):\n            if cmd_id == constants.OKAY:\n                return\n\n            raise exceptions.PushFailedError(data)",
                                        "        if filesync_info.send_idx:\n            self._filesync_flush(adb_info, filesync_info)\n        return")]),
]
MUTANTS += [
    ("c08-while-to-if", "C08", [(D, "        while len(filesync_info.recv_buffer) < size:\n            _, data = self._read_until([constants.WRTE], adb_info)", "        if len(filesync_info.recv_buffer) < size:\n            _, data = self._read_until([constants.WRTE], adb_info)")]),
    ("c08-slice-off-by-one-async", "C08", [(A, "        filesync_info.recv_buffer = filesync_info.recv_buffer[size:]", "        filesync_info.recv_buffer = filesync_info.recv_buffer[size + (1 if size == 65535 else 0):]")]),
    ("c08-no-clse-after-pull", "C08", [(D, "            try:\n                self._pull(device_path, stream, progress_callback, adb_info, filesync_info)\n            finally:\n                self._clse(adb_info)", "            self._pull(device_path, stream, progress_callback, adb_info, filesync_info)")]),
    ("c08-callback-aborts", "C08", [(D, "                try:\n                    progress_callback(device_path, len(data), total_bytes)\n                except:  # noqa pylint: disable=bare-except\n                    pass\n\n    def push", "                progress_callback(device_path, len(data), total_bytes)\n\n    def push")]),
    ("c09-fields-permuted", "C09", [(D, "files.append(DeviceFile(filename, mode, size, mtime))", "files.append(DeviceFile(filename, mode, mtime, size))")]),
    ("c09-name-truncated", "C09", [(A, "files.append(DeviceFile(filename, mode, size, mtime))", "files.append(DeviceFile(filename[:254], mode, size, mtime))")]),
    ("c09-stat-no-clse", "C09", [(D, "        _, (mode, size, mtime), _ = self._filesync_read([constants.STAT], adb_info, filesync_info)\n        self._clse(adb_info)", "        _, (mode, size, mtime), _ = self._filesync_read([constants.STAT], adb_info, filesync_info)")]),
    ("c10-fail-as-invalid-response", "C10", [(D, "            if command_id == constants.FAIL:\n", "            if command_id == constants.FAIL and len(data) < 200:\n")]),
    ("c10-push-returns-on-fail", "C10", [(A, "            raise exceptions.PushFailedError(data)", "            if data:\n                raise exceptions.PushFailedError(data)\n            return")]),
    ("c10-reason-dropped", "C10", [(D, "raise exceptions.AdbCommandFailureException('Command failed: {}'.format(reason))", "raise exceptions.AdbCommandFailureException('Command failed: {}'.format(reason[:40]))")]),
    ("c10-revert-F5", "C10", [(D, "            cmd, data = self._read_until([constants.OKAY, constants.WRTE], adb_info)\n            if cmd == constants.OKAY:\n                break\n\n            filesync_info.recv_buffer += data",
                               "            cmd, data = self._read_until([constants.OKAY], adb_info)\n            break")]),
]
MUTANTS += [
    ("c05-sign-first-token", "C05", [(D, "            for rsa_key in rsa_keys:\n                # 6.1.", "            first_token = banner2\n            for rsa_key in rsa_keys:\n                # 6.1."),
                                      (D, "                signed_token = rsa_key.Sign(banner2)", "                signed_token = rsa_key.Sign(first_token)")]),
    ("c05-continue-after-cnxn-async", "C05", [(A, "                # 6.4. If ``cmd`` is ``b'CNXN'``, we are done\n                if cmd == constants.CNXN:\n                    return True, maxdata", "                # 6.4.\n                if cmd == constants.CNXN and rsa_key is rsa_keys[-1]:\n                    return True, maxdata")]),
    ("c05-callback-before-keys", "C05", [(D, "            # 6. Loop through our keys, signing the last ``banner2`` that we received\n", "            if auth_callback is not None:\n                auth_callback(self)\n                auth_callback = None\n"),]),
    ("c05-pubkey-without-nul", "C05", [(D, "AdbMessage(constants.AUTH, constants.AUTH_RSAPUBLICKEY, 0, pubkey + b'\\0')", "AdbMessage(constants.AUTH, constants.AUTH_RSAPUBLICKEY, 0, pubkey if isinstance(pubkey, bytes) else pubkey + b'\\0')")]),
    ("c05-available-left-true", "C05", [(D, "        # Mark the device as unavailable\n        self._available = False\n\n        # Use the IO manager to connect", "        # Use the IO manager to connect")]),
    ("c05-maxdata-not-adopted", "C05", [(A, "            # 4. If ``cmd`` is not ``b'AUTH'``, then authentication is not necesary and so we are done\n            if cmd != constants.AUTH:\n                return True, maxdata", "            # 4.\n            if cmd != constants.AUTH:\n                return True, max(maxdata, 4096)")]),
    ("c05-auth-timeout-ignored", "C05", [(D, "            adb_info.transport_timeout_s = auth_timeout_s\n", "            adb_info.read_timeout_s = auth_timeout_s\n")]),
    ("c05-second-key-skipped", "C05", [(D, "            for rsa_key in rsa_keys:\n", "            for rsa_key in rsa_keys[:1] + rsa_keys[2:]:\n")]),
    ("c05-pubkey-of-last-key", "C05", [(D, "            pubkey = rsa_keys[0].GetPublicKey()", "            pubkey = rsa_keys[-1].GetPublicKey()")]),
]
MUTANTS += [
    ("c03-request-original-length", "C03", [(D, "        while length > 0:\n            temp = self._transport.bulk_read(length, adb_info.transport_timeout_s)", "        orig_length = length\n        while length > 0:\n            temp = self._transport.bulk_read(orig_length, adb_info.transport_timeout_s)")]),
    ("c03-skip-checksum-short", "C03", [(A, "        if actual_checksum != data_checksum:", "        if actual_checksum != data_checksum and len(data) > 4:")]),
    ("c03-no-unknown-command-test", "C03", [(D, "        if not command:\n            raise exceptions.InvalidCommandError", "        if not command and arg0 == 0xdeadbeef:\n            raise exceptions.InvalidCommandError")]),
    ("c03-fragment-dropped", "C03", [(A, "            data += temp\n            length -= len(temp)", "            if len(temp) != 3:\n                data += temp\n            length -= len(temp)")]),
    ("c03-empty-read-aborts", "C03", [(D, "            data += temp\n            length -= len(temp)\n", "            data += temp\n            length -= len(temp)\n            if not temp:\n                raise exceptions.AdbTimeoutError('empty read')\n")]),
]
MUTANTS += [
    ("c15-revert-F1", "C15", [(D, "            if not isinstance(sent, int) or sent >= len(view):\n                break\n            view = view[max(sent, 0):]", "            break")]),
    ("c15-revert-F1-async", "C15", [(A, "            if not isinstance(sent, int) or sent >= len(view):\n                break\n            view = view[max(sent, 0):]", "            break")]),
    ("c15-resend-whole", "C15", [(D, "            view = view[max(sent, 0):]", "            view = view[max(sent - 1, 0):] if sent == 23 else view[max(sent, 0):]")]),
    ("c15-payload-only-once", "C15", [(D, "            _LOGGER.debug(\"bulk_write(%d): %r\", len(msg.data), msg.data)\n            self._write_all(msg.data, adb_info)", "            _LOGGER.debug(\"bulk_write(%d): %r\", len(msg.data), msg.data)\n            self._transport.bulk_write(msg.data, adb_info.transport_timeout_s)")]),
    ("c16-async-stat-no-clse", "C16", [(A, "        _, (mode, size, mtime), _ = await self._filesync_read([constants.STAT], adb_info, filesync_info)\n        await self._clse(adb_info)", "        _, (mode, size, mtime), _ = await self._filesync_read([constants.STAT], adb_info, filesync_info)")]),
    ("c16-async-different-exception", "C16", [(A, "raise exceptions.InvalidResponseError('Expected one of %s, got %s' % (expected_ids, command_id))", "raise exceptions.InvalidCommandError('Expected one of %s, got %s' % (expected_ids, command_id))")]),
    # removed: ("c16-sync-only-timeout-tweak", `>` -> `>=` on the float deadline in the sync read()): differs only when the elapsed virtual time equals
    # read_timeout_s exactly; it was killed by such a coincidence in earlier sweeps and survived the last one -- an equivalent mutant for practical purposes (DESIGN.md 10.5)
]
MUTANTS += [
    ("c11-no-deadline-in-read-bytes", "C11", [(D, "            if time.time() - start > adb_info.read_timeout_s:\n                # Timeout\n                raise exceptions.AdbTimeoutError(\"Timeout: read {} of {} bytes", "            if False:\n                # Timeout\n                raise exceptions.AdbTimeoutError(\"Timeout: read {} of {} bytes")]),
    ("c11-break-to-continue", "C11", [(D, "            if time.time() - start > adb_info.read_timeout_s:\n                break", "            if time.time() - start > adb_info.read_timeout_s:\n                continue")]),
    ("c11-min-dropped", "C11", [(H, "self.transport_timeout_s = self.read_timeout_s if transport_timeout_s is None else min(transport_timeout_s, self.read_timeout_s)", "self.transport_timeout_s = self.read_timeout_s if transport_timeout_s is None else transport_timeout_s")]),
    ("c11-total-timeout-ignored-async", "C11", [(A, "            if adb_info.timeout_s is not None and time.time() - start > adb_info.timeout_s:", "            if adb_info.timeout_s is not None and time.time() - start > adb_info.timeout_s * 1000:")]),
    ("c11-expected-packet-no-deadline", "C11", [(D, "            if time.time() - start > adb_info.read_timeout_s:\n                # Timeout\n                raise exceptions.AdbTimeoutError(\"Never got one of the expected responses", "            if time.time() - start > adb_info.read_timeout_s * 50:\n                # Timeout\n                raise exceptions.AdbTimeoutError(\"Never got one of the expected responses")]),
]
MUTANTS += [
    ("c12-connect-keeps-store", "C12", [(D, "            with self._store_lock:\n                # We can release this lock because packets are only added to the store when the transport lock is held\n                self._packet_store.clear_all()\n", "")]),
    ("c12-send-manual-lock", "C12", [(D, "        with self._transport_lock:\n            self._send(msg, adb_info)", "        self._transport_lock.acquire()\n        self._send(msg, adb_info)\n        self._transport_lock.release()")]),
    ("c12-send-manual-lock-async", "C12", [(A, "        async with self._transport_lock:\n            await self._send(msg, adb_info)", "        await self._transport_lock.acquire()\n        await self._send(msg, adb_info)\n        self._transport_lock.release()")]),
    ("c12-close-keeps-store-and-connect-too", "C12", [(D, "            with self._store_lock:\n                # We can release this lock because packets are only added to the store when the transport lock is held\n                self._packet_store.clear_all()\n", ""),
                                                       (D, "            self._transport.close()\n\n            with self._store_lock:\n                self._packet_store.clear_all()", "            self._transport.close()")]),
    ("c12-maxdata-sticky", "C12", [(D, "        self._available, self._maxdata = self._io_manager.connect(self._banner, rsa_keys, auth_timeout_s, auth_callback, adb_info)", "        self._available, maxdata = self._io_manager.connect(self._banner, rsa_keys, auth_timeout_s, auth_callback, adb_info)\n        self._maxdata = max(self._maxdata, maxdata) if self._maxdata != constants.MAX_PUSH_DATA else maxdata")]),
    ("c12-read-lock-not-released-on-error", "C12", [(D, "                # Read from the device\n                cmd, arg0, arg1, data = self._read_packet_from_device(adb_info)\n", "                # Read from the device\n                try:\n                    cmd, arg0, arg1, data = self._read_packet_from_device(adb_info)\n                except exceptions.AdbTimeoutError:\n                    self._store_lock.acquire()\n                    raise\n")]),
]
MUTANTS += [
    ("c13-guard-missing-root", "C13", [(D, "        if not self.available:\n            raise exceptions.AdbConnectionError(\"ADB command not sent because a connection to the device has not been established.  (Did you call `AdbDevice.connect()`?)\")\n\n        self._service(b'root', b'', transport_timeout_s, read_timeout_s, timeout_s, False)", "        self._service(b'root', b'', transport_timeout_s, read_timeout_s, timeout_s, False)")]),
    ("c13-close-keeps-available", "C13", [(D, "        self._available = False\n        self._io_manager.close()", "        self._io_manager.close()")]),
    ("c13-flag-not-reset-at-connect-async", "C13", [(A, "        # Mark the device as unavailable\n        self._available = False\n", "")]),
    ("c13-pull-opens-file-first", "C13", [(D, "        if not device_path:\n            raise exceptions.DevicePathInvalidError(\"Cannot pull from an empty device path\")\n        if not self.available:\n            raise exceptions.AdbConnectionError(\"ADB command not sent because a connection to the device has not been established.  (Did you call `AdbDevice.connect()`?)\")\n\n        opener = _open_bytesio if isinstance(local_path, BytesIO) else open\n        with opener(local_path, 'wb') as stream:\n",
                                          "        if not device_path:\n            raise exceptions.DevicePathInvalidError(\"Cannot pull from an empty device path\")\n\n        opener = _open_bytesio if isinstance(local_path, BytesIO) else open\n        with opener(local_path, 'wb') as stream:\n            if not self.available:\n                raise exceptions.AdbConnectionError(\"not connected\")\n")]),
    ("c13-streaming-guard-missing-async", "C13", [(A, "        if not self.available:\n            raise exceptions.AdbConnectionError(\"ADB command not sent because a connection to the device has not been established.  (Did you call `AdbDeviceAsync.connect()`?)\")\n\n        async for line in self._streaming_service(b'shell'", "        async for line in self._streaming_service(b'shell'")]),
]
MUTANTS += [
    ("c19-wildcard-returns-empty-queue", "C19", [(H, "return next(((arg0, key1) for key1, val1 in self._dict.items() for key0, val0 in val1.items() if key0 == arg0 and not val0.empty()), None)", "return next(((arg0, key1) for key1, val1 in self._dict.items() for key0, val0 in val1.items() if key0 == arg0), None)")]),
    ("c19-clear-not-deleting", "C19", [(H, "        if arg1 in self._dict and arg0 in self._dict[arg1]:\n            del self._dict[arg1][arg0]", "        if arg1 in self._dict and arg0 in self._dict[arg1] and arg0 != arg1:\n            del self._dict[arg1][arg0]")]),
    ("c19-clse-get-not-clearing", "C19", [(H, "        if cmd == constants.CLSE:\n            self.clear(arg0, arg1)\n\n        return cmd, arg0, arg1, data", "        return cmd, arg0, arg1, data")]),
    ("c19-len-counts-empty", "C19", [(H, "return sum(not val0.empty() for val1 in self._dict.values() for val0 in val1.values())", "return sum(1 for val1 in self._dict.values() for val0 in val1.values())")]),
    ("c19-zero-fallback-order-missing", "C19", [(H, "for arg0_, arg1_ in ((arg0, arg1), (arg0, 0), (0, arg1), (0, 0)):", "for arg0_, arg1_ in ((arg0, arg1), (arg0, 0), (0, 0)):")]),
    ("c19-lifo", "C19", [(H, "        self._dict[arg1][arg0].put_nowait((cmd, data))", "        q = self._dict[arg1][arg0]\n        items = [(cmd, data)]\n        while not q.empty():\n            items.append(q.get_nowait())\n        for it in items:\n            q.put_nowait(it)")]),
    ("c19-find-ignores-arg0-when-single", "C19", [(H, "        if arg0 in self._dict[arg1] and not self._dict[arg1][arg0].empty():\n            return (arg0, arg1)\n\n        return None", "        if arg0 in self._dict[arg1] and not self._dict[arg1][arg0].empty():\n            return (arg0, arg1)\n\n        if len(self._dict[arg1]) == 1:\n            return next(((key0, arg1) for key0, val0 in self._dict[arg1].items() if not val0.empty()), None)\n        return None")]),
]
K = "adb_shell/auth/keygen.py"
MUTANTS += [
    ("c17-n0inv-not-negated", "C17", [(K, "    n0inv = r32 - n0inv\n", "")]),
    ("c17-rr-wrong-exponent", "C17", [(K, "    rr = (rr ** 2) % key.n", "    rr = (rr * 2) % key.n")]),
    ("c17-modulus-big-endian", "C17", [(K, "        _to_bytes(key.n, ANDROID_PUBKEY_MODULUS_SIZE, 'little'),", "        _to_bytes(key.n, ANDROID_PUBKEY_MODULUS_SIZE, 'big'),")]),
    ("c17-revert-F3", "C17", [("adb_shell/auth/sign_pycryptodome.py", "        return pkcs1_15.new(self.rsa_key).sign(_PrehashedSHA1(data))", "        from Crypto.Hash import SHA256\n        return pkcs1_15.new(self.rsa_key).sign(SHA256.new(data))")]),
    ("c17-no-comment", "C17", [(K, "        public_key_file.write(get_user_info().encode())", "        pass")]),
    ("c17-exponent-hardcoded", "C17", [(K, "        key.e\n    )", "        65537\n    )")]),
    ("c17-cryptography-sha256", "C17", [("adb_shell/auth/sign_cryptography.py", "utils.Prehashed(hashes.SHA1())", "utils.Prehashed(hashes.SHA1()) if data[0] < 0xf0 else hashes.SHA1()")]),
]
MUTANTS += [
    ("c06-lifo-store", "C06", [(H, "        self._dict[arg1][arg0].put_nowait((cmd, data))", "        q = self._dict[arg1][arg0]\n        items = [(cmd, data)]\n        while not q.empty():\n            items.append(q.get_nowait())\n        for it in items:\n            q.put_nowait(it)")]),
    ("c06-skip-second-store-lookup", "C06", [(D, "            with self._transport_lock:\n                # Try reading from the store (again) in case a packet got added while waiting to acquire the transport lock\n                with self._store_lock:\n                    # Recall that `arg0` from the device corresponds to `adb_info.remote_id` and `arg1` from the device corresponds to `adb_info.local_id`\n                    arg0_arg1 = self._packet_store.find(adb_info.remote_id, adb_info.local_id) if not allow_zeros else self._packet_store.find_allow_zeros(adb_info.remote_id, adb_info.local_id)\n                    while arg0_arg1:",
                                              "            with self._transport_lock:\n                with self._store_lock:\n                    arg0_arg1 = None\n                    while arg0_arg1:")]),
    ("c06-skip-second-store-lookup-async", "C06", [(A, "            async with self._transport_lock:\n                # Try reading from the store (again) in case a packet got added while waiting to acquire the transport lock\n                async with self._store_lock:\n                    # Recall that `arg0` from the device corresponds to `adb_info.remote_id` and `arg1` from the device corresponds to `adb_info.local_id`\n                    arg0_arg1 = self._packet_store.find(adb_info.remote_id, adb_info.local_id) if not allow_zeros else self._packet_store.find_allow_zeros(adb_info.remote_id, adb_info.local_id)\n                    while arg0_arg1:",
                                                    "            async with self._transport_lock:\n                async with self._store_lock:\n                    arg0_arg1 = None\n                    while arg0_arg1:")]),
    ("c06-park-wrong-key", "C06", [(D, "                        self._packet_store.put(arg0, arg1, cmd, data)", "                        self._packet_store.put(arg1, arg0, cmd, data)")]),
    ("c06-deliver-foreign-wrte", "C06", [(H, "return arg1 in (0, self.local_id) and (self.remote_id is None or arg0 in (0, self.remote_id))", "return (self.remote_id is None or arg0 in (0, self.remote_id))")]),
    ("c06-lock-order-inverted", "C06", [(D, "        with self._transport_lock:\n            self._transport.close()\n\n            with self._store_lock:\n                self._packet_store.clear_all()", "        with self._store_lock:\n            with self._transport_lock:\n                self._transport.close()\n                self._packet_store.clear_all()")]),
    ("c06-send-holds-store-lock-then-transport", "C06", [(D, "        with self._transport_lock:\n            self._send(msg, adb_info)", "        with self._store_lock:\n            with self._transport_lock:\n                self._send(msg, adb_info)")]),
    ("c06-drop-parked-okay", "C06", [(D, "                    with self._store_lock:\n                        self._packet_store.put(arg0, arg1, cmd, data)", "                    with self._store_lock:\n                        if cmd != constants.OKAY or arg1 % 2:\n                            self._packet_store.put(arg0, arg1, cmd, data)")]),
]
MUTANTS += [
    ("c06-park-after-releasing-transport-lock", "C06", [
        (D, "                if not adb_info.args_match(arg0, arg1, allow_zeros):\n                    # The packet is not a match -> put it in the store\n                    with self._store_lock:\n                        self._packet_store.put(arg0, arg1, cmd, data)\n\n                else:",
            "                to_park = None\n                if not adb_info.args_match(arg0, arg1, allow_zeros):\n                    to_park = (arg0, arg1, cmd, data)\n\n                else:"),
        (D, "            # Check if time is up\n            if time.time() - start > adb_info.read_timeout_s:\n                break\n\n        # Timeout\n        raise exceptions.AdbTimeoutError(\"Never got one of the expected responses: {} (transport_timeout_s = {}, read_timeout_s = {})\".format(expected_cmds, adb_info.transport_timeout_s, adb_info.read_timeout_s))\n\n    def send",
            "            if to_park is not None:\n                with self._store_lock:\n                    self._packet_store.put(*to_park)\n\n            # Check if time is up\n            if time.time() - start > adb_info.read_timeout_s:\n                break\n\n        # Timeout\n        raise exceptions.AdbTimeoutError(\"Never got one of the expected responses: {} (transport_timeout_s = {}, read_timeout_s = {})\".format(expected_cmds, adb_info.transport_timeout_s, adb_info.read_timeout_s))\n\n    def send"),
    ]),
]
MUTANTS += [
    ("c14-lock-removed", "C14", [(D, "        with self._local_id_lock:\n            self._local_id += 1\n            if self._local_id == 2**32:\n                self._local_id = 1\n\n            adb_info = _AdbTransactionInfo(self._local_id,",
                                   "        if True:\n            self._local_id += 1\n            if self._local_id == 2**32:\n                self._local_id = 1\n\n            adb_info = _AdbTransactionInfo(self._local_id,")]),
    ("c14-wrap-to-zero", "C14", [(D, "            if self._local_id == 2**32:\n                self._local_id = 1", "            if self._local_id == 2**32:\n                self._local_id = 0")]),
    ("c14-wrap-test-gt-async", "C14", [(A, "            if self._local_id == 2**32:\n                self._local_id = 1", "            if self._local_id > 2**32:\n                self._local_id = 1")]),
    ("c14-adb-info-outside-lock", "C14", [(D, "                self._local_id = 1\n\n            adb_info = _AdbTransactionInfo(self._local_id,", "                self._local_id = 1\n\n        if True:\n            adb_info = _AdbTransactionInfo(self._local_id,")]),
]
T = "adb_shell/transport/tcp_transport.py"
TA = "adb_shell/transport/tcp_transport_async.py"
MUTANTS += [
    ("c18-recv-one-more", "C18", [(T, "            return self._connection.recv(numbytes)", "            return self._connection.recv(numbytes + 1)")]),
    ("c18-timeout-not-passed-to-select", "C18", [(T, "        readable, _, _ = select.select([self._connection], [], [], transport_timeout_s)", "        readable, _, _ = select.select([self._connection], [], [], 0)")]),
    ("c18-async-read-exactly", "C18", [(TA, "                return await self._reader.read(numbytes)", "                return await self._reader.readexactly(numbytes)")]),
    ("c18-async-timeout-swallowed", "C18", [(TA, "            msg = 'Reading from {}:{} timed out ({} seconds)'.format(self._host, self._port, transport_timeout_s)\n            raise TcpTimeoutException(msg) from exc", "            return b''")]),
    ("c16-tcp-sync-drops-first-byte", "C16", [(T, "            return self._connection.recv(numbytes)", "            d = self._connection.recv(numbytes)\n            return d[1:] if len(d) == 5 else d")]),
]
U = "adb_shell/transport/usb_transport.py"
MUTANTS += [
    ("c20-seconds-as-ms", "C20", [(U, "return int(transport_timeout_s * 1000 if transport_timeout_s is not None else self._default_transport_timeout_s * 1000)", "return int(transport_timeout_s if transport_timeout_s is not None else self._default_transport_timeout_s * 1000)")]),
    ("c20-default-ignored", "C20", [(U, "return int(transport_timeout_s * 1000 if transport_timeout_s is not None else self._default_transport_timeout_s * 1000)", "return int(transport_timeout_s * 1000 if transport_timeout_s is not None else DEFAULT_TIMEOUT_S * 1000)")]),
    ("c20-endpoints-swapped", "C20", [(U, "        self._read_endpoint = read_endpoint\n        self._write_endpoint = write_endpoint", "        self._read_endpoint = write_endpoint\n        self._write_endpoint = read_endpoint")]),
    ("c20-close-keeps-handle", "C20", [(U, "        finally:\n            self._transport = None", "        finally:\n            pass")]),
    ("c20-revert-F6", "C20", [(U, "        self._transport = transport\n        self._read_endpoint = read_endpoint", "        self._transport = transport\n        self._read_endpoint = read_endpoint"),
                               (U, "            warnings.warn('Kernel driver not found for interface: %s.' % iface_number)\n\n        # # When this object is deleted", "            warnings.warn('Kernel driver not found for interface: %s.', iface_number)\n\n        # # When this object is deleted")]),
    ("c20-read-one-more", "C20", [(U, "self._transport.bulkRead(self._read_endpoint, numbytes, timeout=", "self._transport.bulkRead(self._read_endpoint, numbytes + 1, timeout=")]),
    ("c20-write-error-not-wrapped", "C20", [(U, "        except usb1.USBError as e:\n            raise exceptions.UsbWriteFailedError(", "        except usb1.USBErrorTimeout as e:\n            raise exceptions.UsbWriteFailedError(")]),
    ("c20-no-claim", "C20", [(U, "        self._transport.claimInterface(self._interface_number)", "        pass")]),
    ("c20-serial-matcher-ignored", "C20", [(U, "        return lambda device: device.serial_number == serial", "        return lambda device: True")]),
]
