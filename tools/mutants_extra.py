MUTANTS = [
    ("c02-checksum-16bit", "C02", [(M, "return total & 0xFFFFFFFF", "return total & 0xFFFF")]),
    ("c02-magic-wrong-word", "C02", [(M, "self.magic = self.command ^ 0xFFFFFFFF", "self.magic = (self.command ^ 0xFFFFFFFF) if command != constants.CLSE else (arg0 ^ 0xFFFFFFFF)")]),
    ("c02-len-plus-one-bytearray", "C02", [(M, "self.arg1, len(self.data), self.checksum, self.magic)", "self.arg1, len(self.data) + (1 if isinstance(self.data, bytearray) and len(self.data) == 4096 else 0), self.checksum, self.magic)")]),
    ("c02-args-swapped-high", "C02", [(M, "self.command, self.arg0, self.arg1, len(self.data)", "self.command, *((self.arg1, self.arg0) if self.arg0 >= 2**31 else (self.arg0, self.arg1)), len(self.data)")]),
    ("c04-okay-ids-swapped", "C04", [(D, "msg = AdbMessage(constants.OKAY, adb_info.local_id, adb_info.remote_id)", "msg = AdbMessage(constants.OKAY, adb_info.remote_id, adb_info.local_id)")]),
    ("c04-ack-okay-too", "C04", [(A, "        if cmd == constants.WRTE:\n            await self._okay(adb_info)", "        if cmd in (constants.WRTE, constants.OKAY) and adb_info.remote_id:\n            await self._okay(adb_info)")]),
    ("c04-clse-twice", "C04", [(D, "                msg = AdbMessage(constants.CLSE, adb_info.local_id, adb_info.remote_id)\n                self._io_manager.send(msg, adb_info)\n                break",
                                "                msg = AdbMessage(constants.CLSE, adb_info.local_id, adb_info.remote_id)\n                self._io_manager.send(msg, adb_info)\n                self._io_manager.send(msg, adb_info)\n                break")]),
    ("c04-flush-no-wait", "C04", [(D, "            cmd, data = self._read_until([constants.OKAY, constants.WRTE], adb_info)\n            if cmd == constants.OKAY:\n                break\n\n            filesync_info.recv_buffer += data",
                                   "            break")]),
    ("c04-no-ack-on-last-wrte", "C04", [(D, "        if cmd == constants.WRTE:\n            self._okay(adb_info)", "        if cmd == constants.WRTE and len(data) != 3:\n            self._okay(adb_info)")]),
]
