import json,sys
from advf import codec, runner
d=codec.from_jsonable(json.load(open(sys.argv[1])))
o=runner.run(d["case"])
print(o.results)
for s in o.sims:
    print("HOST"); [print("  %.6f"%t,p.brief()) for t,p in s.host_log]
    print("DEV"); [print("  %.6f"%t,p.brief()) for t,p,_ in s.device_log]
    print(s.violations)
