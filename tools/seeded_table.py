#!/venv/bin/python
"""Print a markdown table of the seeded breakages and which checks detect them (from seeded/*/meta.json)."""
import json
import os
import re

V = os.path.dirname(os.path.dirname(os.path.abspath(__file__)))
rows = []
own = cross = 0
for name in sorted(os.listdir(os.path.join(V, "seeded"))):
    mp = os.path.join(V, "seeded", name, "meta.json")
    if not os.path.exists(mp):
        continue
    m = json.load(open(mp))
    prop = m["breaks_property"]
    checks = m.get("checks", {})
    tq = (checks.get("quick") or {}).get(prop, {})
    allq = checks.get("quick-all") or {}
    det = sorted(p for p, r in allq.items() if isinstance(r, dict) and r.get("verdict") == "DETECTED" and p != prop)
    verdict = tq.get("verdict", "?") if isinstance(tq, dict) else "?"
    rule = ""
    if isinstance(tq, dict) and tq.get("rules"):
        rule = re.sub(r"part=(\S+) rule=(\S+)", r"\1: \2", tq["rules"][0])
    if verdict == "DETECTED":
        own += 1
        col = "%s (%s)" % (prop, rule)
    else:
        cross += 1 if det else 0
        col = "— ; caught by " + ", ".join(det) if det else "**missed**"
    rows.append((name, m.get("summary", ""), m.get("needs_to_manifest", ""), col))
import sys
lines = ["| id | change | needs to manifest | detected by (quick tier) |", "|---|---|---|---|"]
for r in rows:
    lines.append("| %s | %s | %s | %s |" % r)
lines.append("")
lines.append("%d changes; %d detected by the check of the property they were written against, %d only by the check of another property, %d by none."
             % (len(rows), own, cross, len(rows) - own - cross))
text = "\n".join(lines)
if "--design" in sys.argv:
    # refresh the marked region of DESIGN.md
    dp = os.path.join(V, "DESIGN.md")
    d = open(dp).read()
    b, e = "<!-- seeded-table:begin -->", "<!-- seeded-table:end -->"
    i, j = d.index(b) + len(b), d.index(e)
    open(dp, "w").write(d[:i] + "\n" + text + "\n" + d[j:])
else:
    print(text)
