#!/venv/bin/python
"""Print a markdown table of the seeded breakages and which checks detect them (from seeded/*/meta.json)."""
import json
import os
import re

V = os.path.dirname(os.path.dirname(os.path.abspath(__file__)))
rows = []
for name in sorted(os.listdir(os.path.join(V, "seeded"))):
    mp = os.path.join(V, "seeded", name, "meta.json")
    if not os.path.exists(mp):
        continue
    m = json.load(open(mp))
    checks = m.get("checks", {})
    allq = checks.get("quick-all") or {}
    tq = (checks.get("quick") or {}).get(m["breaks_property"], {})
    target = allq.get(m["breaks_property"], tq)
    det = sorted(p for p, r in allq.items() if isinstance(r, dict) and r.get("verdict") == "DETECTED")
    rule = ""
    if isinstance(target, dict) and target.get("rules"):
        rule = re.sub(r"part=(\S+) rule=(\S+)", r"\2", target["rules"][0])
    summary = m.get("summary", "")
    rows.append((name, summary, target.get("verdict", "?") if isinstance(target, dict) else "?", rule, ", ".join(d for d in det if d != m["breaks_property"])))
print("| id | change (one line) | own property's check (quick) | first rule | also detected by |")
print("|---|---|---|---|---|")
for r in rows:
    print("| %s | %s | %s | %s | %s |" % r)
