"""A conforming fake of python-libusb1's `usb1` module (the subset adb_shell uses), injected via sys.modules.

Behaviour follows the python-libusb1 documentation:
  * USBContext.getDeviceIterator(skip_on_error=...) yields USBDevice objects
  * USBDevice: getBusNumber, getPortNumberList, getSerialNumber, iterSettings, open() -> USBDeviceHandle
  * USBInterfaceSetting: getClass/getSubClass/getProtocol/getNumber/iterEndpoints; USBEndpoint: getAddress/getMaxPacketSize
  * USBDeviceHandle: kernelDriverActive, detachKernelDriver, claimInterface, releaseInterface, close,
      bulkRead(endpoint, length, timeout=0) -> bytearray (at most `length` bytes; raises USBErrorTimeout when nothing arrives),
      bulkWrite(endpoint, data, timeout=0) -> number of bytes written (may be short)
    timeout is in milliseconds, 0 = wait for ever
  * errors: USBError and its subclasses USBErrorTimeout, USBErrorNotFound, USBErrorNoDevice, USBErrorIO ...
"""
import sys
import types

ENDPOINT_IN = 0x80
ENDPOINT_OUT = 0x00
ENDPOINT_DIR_MASK = 0x80
CLASS_VENDOR_SPEC = 0xFF

EP_IN = 0x81
EP_OUT = 0x01
IFACE = 2


class USBError(Exception):
    value = None

    def __init__(self, value=None):
        Exception.__init__(self)
        if value is not None:
            self.value = value

    def __str__(self):
        return "%s [%s]" % (type(self).__name__, self.value)


class USBErrorIO(USBError):
    value = -1


class USBErrorNoDevice(USBError):
    value = -4


class USBErrorNotFound(USBError):
    value = -5


class USBErrorBusy(USBError):
    value = -6


class USBErrorTimeout(USBError):
    value = -7

    def __init__(self, value=None, received=b""):
        USBError.__init__(self, value)
        self.received = received
        self.transferred = len(received)


class USBErrorPipe(USBError):
    value = -9


class FakeWorld(object):
    """Shared state: the devices on the bus and the log of backend calls."""

    def __init__(self):
        self.devices = []
        self.calls = []           # (name, args...)

    def reset(self):
        self.devices = []
        self.calls = []


WORLD = FakeWorld()


class USBEndpoint(object):
    def __init__(self, address, maxpacket=512):
        self._address = address
        self._maxpacket = maxpacket

    def getAddress(self):
        return self._address

    def getMaxPacketSize(self):
        return self._maxpacket


class USBInterfaceSetting(object):
    def __init__(self, number, klass, subclass, protocol, endpoints):
        self._n, self._c, self._s, self._p, self._e = number, klass, subclass, protocol, endpoints

    def getNumber(self):
        return self._n

    def getClass(self):
        return self._c

    def getSubClass(self):
        return self._s

    def getProtocol(self):
        return self._p

    def iterEndpoints(self):
        return iter(self._e)


class USBDeviceHandle(object):
    def __init__(self, device):
        self.device = device
        self.claimed = set()
        self.closed = False
        self.kernel_driver = device.kernel_driver

    def _log(self, *a):
        WORLD.calls.append(a)

    def _check(self, name):
        idx = len([c for c in WORLD.calls if c[0] in ("bulkRead", "bulkWrite")])
        err = self.device.errors.get(idx)
        return err

    def kernelDriverActive(self, iface):
        self._log("kernelDriverActive", iface)
        return bool(self.kernel_driver)

    def detachKernelDriver(self, iface):
        self._log("detachKernelDriver", iface)
        if self.kernel_driver == "notfound":
            # libusb_detach_kernel_driver: LIBUSB_ERROR_NOT_FOUND if no kernel driver was active (it went away in between)
            self.kernel_driver = False
            raise USBErrorNotFound()
        self.kernel_driver = False

    def claimInterface(self, iface):
        self._log("claimInterface", iface)
        if self.closed:
            raise USBErrorNoDevice()
        self.claimed.add(iface)

    def releaseInterface(self, iface):
        self._log("releaseInterface", iface)
        if self.device.release_error:
            raise USBErrorNoDevice()
        self.claimed.discard(iface)

    def close(self):
        self._log("close")
        self.closed = True
        if getattr(self.device, "close_error", False):
            raise USBErrorIO()

    def bulkRead(self, endpoint, length, timeout=0):
        err = self._check("bulkRead")
        self._log("bulkRead", endpoint, length, timeout)
        if self.closed:
            raise USBErrorNoDevice()
        if not isinstance(timeout, int) or isinstance(timeout, bool):
            raise TypeError("timeout must be an int (milliseconds)")
        if err is not None:
            raise err()
        if endpoint != EP_IN:
            raise USBErrorNotFound()          # libusb: no such endpoint for this direction
        if IFACE not in self.claimed:
            raise USBErrorIO()
        return self.device.backend_read(length, timeout)

    def bulkWrite(self, endpoint, data, timeout=0):
        err = self._check("bulkWrite")
        self._log("bulkWrite", endpoint, len(data), timeout)
        if self.closed:
            raise USBErrorNoDevice()
        if not isinstance(timeout, int) or isinstance(timeout, bool):
            raise TypeError("timeout must be an int (milliseconds)")
        if err is not None:
            raise err()
        if endpoint != EP_OUT:
            raise USBErrorNotFound()
        if IFACE not in self.claimed:
            raise USBErrorIO()
        return self.device.backend_write(bytes(data), timeout)


class USBDevice(object):
    def __init__(self, serial="SER123", bus=1, ports=(2, 3), adb=True, kernel_driver=False, fastboot_first=False):
        self.serial = serial
        self.bus = bus
        self.ports = list(ports)
        self.kernel_driver = kernel_driver
        self.release_error = False
        self.close_error = False
        self.serial_error = False
        self.errors = {}            # index among bulk transfers -> exception class
        eps = [USBEndpoint(EP_IN), USBEndpoint(EP_OUT)]
        self.settings = [USBInterfaceSetting(0, 0x08, 0x06, 0x50, [USBEndpoint(0x82), USBEndpoint(0x02)])]
        if fastboot_first:
            # a composite device: a fastboot-style interface (same class ff / subclass 42, protocol 3) is listed before the ADB one (protocol 1)
            self.settings.append(USBInterfaceSetting(1, CLASS_VENDOR_SPEC, 0x42, 0x03, [USBEndpoint(0x83), USBEndpoint(0x03)]))
        if adb:
            self.settings.append(USBInterfaceSetting(IFACE, CLASS_VENDOR_SPEC, 0x42, 0x01, eps))
        self.handles = []
        self.backend_read = lambda length, timeout: bytearray()
        self.backend_write = lambda data, timeout: len(data)

    def getBusNumber(self):
        return self.bus

    def getPortNumberList(self):
        return list(self.ports)

    def getSerialNumber(self):
        if self.serial_error:
            raise USBErrorNoDevice()        # an unplugged device: every libusb call reports LIBUSB_ERROR_NO_DEVICE
        return self.serial

    def iterSettings(self):
        return iter(self.settings)

    def open(self):
        WORLD.calls.append(("open", self.serial))
        h = USBDeviceHandle(self)
        self.handles.append(h)
        return h


class USBContext(object):
    def open(self):
        return self

    def close(self):
        pass

    def __enter__(self):
        return self

    def __exit__(self, *a):
        pass

    def getDeviceIterator(self, skip_on_error=False):
        return iter(list(WORLD.devices))

    def getDeviceList(self, skip_on_error=False):
        return list(WORLD.devices)


def install():
    """Place this module in sys.modules as `usb1` (must happen before adb_shell is imported)."""
    if "adb_shell" in sys.modules and "adb_shell.transport.usb_transport" not in sys.modules:
        raise RuntimeError("adb_shell was imported before the fake usb1 was installed")
    mod = types.ModuleType("usb1")
    for k, v in globals().items():
        if not k.startswith("_") and k not in ("sys", "types", "install"):
            setattr(mod, k, v)
    sys.modules["usb1"] = mod
    return mod
