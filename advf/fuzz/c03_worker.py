"""libFuzzer worker for the C03 connect() target (run as a script in a subprocess; needs atheris on PYTHONPATH)."""
import sys

import atheris

with atheris.instrument_imports(include=["adb_shell"]):
    from advf import env
    env.lib()

from advf.fuzz import c03_connect  # noqa: E402


def TestOneInput(data):
    v, _ = c03_connect.run_input(data)
    if v is not None:
        raise RuntimeError("VIOLATION %r" % (v,))


if __name__ == "__main__":
    atheris.Setup(sys.argv, TestOneInput)
    atheris.Fuzz()
