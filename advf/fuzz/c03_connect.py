"""C03 (c): byte-level differential target for connect() -- the inbound parser against a reference parser.

The input bytes are decoded (structure-aware) into (transport flavour, number of keys, fragmentation tape, list of frames) where a frame is one of
  valid frame / frame with a drawn command word / frame with a bad checksum / truncated frame / raw bytes.
The frames are concatenated into the device->host byte stream served by a fake transport; connect() is run on it and a ~60-line
reference parser predicts the exact outcome class (True+maxdata, DeviceAuthError, InvalidResponseError, InvalidCommandError,
InvalidChecksumError, timeout).  Used three ways: Hypothesis over st.binary() (quick), saved corpus replay (both tiers),
coverage-guided atheris/libFuzzer campaigns in subprocesses (thorough).
"""
import os
import shutil
import struct
import subprocess
import sys
import tempfile
import time

from .. import env, harness, wire, codec
from ..harness import Violation
from ..runner import FakeSigner

L = env.lib()

CMDS = [wire.A_SYNC, wire.A_CNXN, wire.A_AUTH, wire.A_OPEN, wire.A_OKAY, wire.A_CLSE, wire.A_WRTE]
HERE = os.path.dirname(os.path.abspath(__file__))
SEED_CORPUS = os.path.join(env.VERIF, "corpus", "C03-fuzz")


class Provider(object):
    """Minimal FuzzedDataProvider (consumes from the front; exhausted input yields zeros)."""

    def __init__(self, data):
        self.d = bytes(data)
        self.i = 0

    def byte(self):
        if self.i < len(self.d):
            b = self.d[self.i]
            self.i += 1
            return b
        return 0

    def u32(self):
        return self.byte() | (self.byte() << 8) | (self.byte() << 16) | (self.byte() << 24)

    def take(self, n):
        out = self.d[self.i:self.i + n]
        self.i += len(out)
        return out

    @property
    def remaining(self):
        return len(self.d) - self.i


def decode(data):
    p = Provider(data)
    flags = p.byte()
    flavour = "empty" if flags & 1 else "raises"
    nkeys = (flags >> 1) & 3
    if nkeys == 3:
        nkeys = 1
    ntape = p.byte() % 9
    tape = [p.byte() % 40 for _ in range(ntape)]
    frames = []
    stream = bytearray()
    while p.remaining > 0 and len(frames) < 12:
        kind = p.byte() % 8
        if kind <= 3:           # valid frame
            cmd = CMDS[p.byte() % 7]
            a0sel = p.byte()
            arg0 = [1, 2, 3, 0][a0sel % 4] if a0sel < 200 else p.u32()
            arg1 = p.u32() if p.byte() & 1 else [0, 4096, 65536, 1048576][p.byte() % 4]
            n = p.byte() % 48
            payload = p.take(n)
            stream += wire.encode(cmd, arg0, arg1, payload)
            frames.append(("valid", wire.CMD_NAMES[cmd], arg0, arg1, len(payload)))
        elif kind == 4:         # drawn command word
            word = p.u32()
            payload = p.take(p.byte() % 16)
            stream += struct.pack("<6I", word, p.byte(), p.byte(), len(payload), sum(payload) & 0xFFFFFFFF, word ^ 0xFFFFFFFF) + payload
            frames.append(("cmdword", word))
        elif kind == 5:         # bad checksum
            cmd = CMDS[p.byte() % 7]
            payload = p.take(1 + p.byte() % 16)
            delta = 1 + p.byte() % 200
            field = (sum(payload) + delta) & 0xFFFFFFFF
            if delta > 150:
                if sum(payload) == 0:
                    payload = b"\x01" + payload[1:]
                field = 0          # header says 0, payload sums to something else
            stream += struct.pack("<6I", cmd, 1, 0, len(payload), field, cmd ^ 0xFFFFFFFF) + payload
            frames.append(("badsum", wire.CMD_NAMES[cmd], len(payload)))
        elif kind == 6:         # truncated frame
            cmd = CMDS[p.byte() % 7]
            payload = p.take(p.byte() % 16)
            raw = wire.encode(cmd, 1, 4096, payload)
            cut = p.byte() % max(1, len(raw))
            stream += raw[:cut]
            frames.append(("truncated", cut))
        else:                   # raw bytes
            raw = p.take(1 + p.byte() % 30)
            stream += raw
            frames.append(("raw", len(raw)))
    return {"flavour": flavour, "nkeys": nkeys, "tape": tape, "stream": bytes(stream), "frames": frames}


class ByteTransport(L.base_transport.BaseTransport):
    def __init__(self, stream, tape, flavour, clock):
        self.s = stream
        self.pos = 0
        self.tape = tape
        self.ti = 0
        self.flavour = flavour
        self.clock = clock
        self.written = bytearray()
        self.calls = 0

    def close(self):
        pass

    def connect(self, transport_timeout_s):
        pass

    def bulk_write(self, data, transport_timeout_s):
        self.written += data
        return len(data)

    def bulk_read(self, numbytes, transport_timeout_s):
        self.calls += 1
        if self.calls > 20000:
            raise harness.ViolationFound(None, Violation("non-termination", "connect() made more than 20000 reads on a %d-byte stream" % len(self.s)))
        avail = len(self.s) - self.pos
        if avail <= 0:
            self.clock.advance(max(transport_timeout_s or 0, 0) + 1e-3)
            if self.flavour == "raises":
                raise L.exceptions.TcpTimeoutException("nothing to read")
            return b""
        n = min(numbytes, avail)
        if self.tape:
            v = self.tape[self.ti % len(self.tape)]
            self.ti += 1
            if v:
                n = min(n, v)
        out = self.s[self.pos:self.pos + n]
        self.pos += n
        self.clock.advance(1e-6)
        return out


def reference(stream, nkeys):
    """What connect() must do with this device->host byte stream (no magic check: the protocol field the library ignores)."""
    pos = [0]

    def read_packet():
        if len(stream) - pos[0] < 24:
            return "timeout"
        cmd, a0, a1, ln, cs, _ = struct.unpack_from("<6I", stream, pos[0])
        pos[0] += 24
        if cmd not in wire.CMD_NAMES:
            return "InvalidCommandError"
        if ln == 0:
            return (cmd, a0, a1, b"")
        if len(stream) - pos[0] < ln:
            pos[0] = len(stream)
            return "timeout"
        data = stream[pos[0]:pos[0] + ln]
        pos[0] += ln
        if (sum(data) & 0xFFFFFFFF) != cs:
            return "InvalidChecksumError"
        return (cmd, a0, a1, data)

    def expect(cmds):
        while True:
            p = read_packet()
            if isinstance(p, str):
                return p
            if p[0] in cmds:
                return p

    p = expect((wire.A_AUTH, wire.A_CNXN))
    if isinstance(p, str):
        return (p, None)
    if p[0] != wire.A_AUTH:
        return ("True", p[2])
    if nkeys == 0:
        return ("DeviceAuthError", None)
    for _ in range(nkeys):
        if p[1] != wire.AUTH_TOKEN:
            return ("InvalidResponseError", None)
        p = expect((wire.A_CNXN, wire.A_AUTH))
        if isinstance(p, str):
            return (p, None)
        if p[0] == wire.A_CNXN:
            return ("True", p[2])
    p = expect((wire.A_CNXN,))
    if isinstance(p, str):
        return (p, None)
    return ("True", p[2])


def run_input(data):
    """Returns (Violation | None, info)."""
    d = decode(data)
    clock = env.new_clock()
    tr = ByteTransport(d["stream"], d["tape"], d["flavour"], clock)
    dev = L.adb_device.AdbDevice(tr, banner="fz")
    keys = [FakeSigner("k%d" % i) for i in range(d["nkeys"])]
    try:
        ok = dev.connect(rsa_keys=keys or None, read_timeout_s=5.0, transport_timeout_s=1.0, auth_timeout_s=1.0)
        got = ("True" if ok is True else repr(ok), None)
    except harness.ViolationFound as e:
        return e.violation, {"classes": ["fuzz"]}
    except (L.exceptions.AdbTimeoutError, L.exceptions.TcpTimeoutException):
        got = ("timeout", None)
    except Exception as e:  # noqa
        got = (type(e).__name__, None)
    want = reference(d["stream"], d["nkeys"])
    info = {"classes": ["fuzz", "outcome:" + want[0]], "nontrivial": len(d["frames"]) >= 2 and bool(d["tape"]),
            "sample": {"frames": d["frames"][:6], "tape": d["tape"], "nkeys": d["nkeys"], "flavour": d["flavour"], "expected": want[0]}}
    if got[0] != want[0]:
        return Violation("connect-outcome-differs-from-reference-parser", "frames %r, read tape %r, %d keys, flavour %s: reference says %s, connect() gave %s"
                         % (d["frames"], d["tape"], d["nkeys"], d["flavour"], want[0], got[0])), info
    if want[0] == "True":
        exp_chunk = min(65536, want[1] // 2) or 2048
        if dev.max_chunk_size != exp_chunk or not dev.available:
            return Violation("connect-maxdata-or-availability", "CNXN maxdata %d -> max_chunk_size %d (expected %d), available=%r" % (want[1], dev.max_chunk_size, exp_chunk, dev.available)), info
    elif dev.available:
        return Violation("available-after-failed-connect", "outcome %s but available is True" % want[0]), info
    try:
        wire.StreamDecoder().feed(bytes(tr.written))
    except wire.FramingError as e:
        return Violation("host-stream-undecodable", str(e)), info
    return None, info


def check_case(case):
    return run_input(case["data"])


def replay_case(case):
    return run_input(case["data"])[0]


def seed_inputs():
    out = []
    if os.path.isdir(SEED_CORPUS):
        for fn in sorted(os.listdir(SEED_CORPUS)):
            with open(os.path.join(SEED_CORPUS, fn), "rb") as f:
                out.append(f.read())
    return out


def campaign(tier, seed, col):
    """Hypothesis over raw bytes (both tiers) + atheris campaigns (thorough)."""
    from hypothesis import strategies as st
    stats = {}
    for data in seed_inputs():
        v, info = run_input(data)
        info["classes"] = list(info.get("classes", [])) + ["seed-corpus"]
        col.count({"data": data}, info)
        if v is not None:
            harness.handle(col, "fuzz", {"data": data}, v)
    strat = st.builds(lambda b: {"data": b}, st.binary(min_size=0, max_size=400))
    col.merge(harness.hypothesis_part("fuzz", strat, check_case, 4000 if tier == "quick" else 200000, seed, shrink=(tier != "quick")))
    if tier == "quick":
        stats["atheris"] = "thorough tier only"
        return stats
    deps = os.path.join(env.VERIF, ".deps")
    if not os.path.isdir(os.path.join(deps, "atheris")):
        stats["atheris"] = "skipped: atheris is not installed under /verif/.deps (MANIFEST.setup_cmd installs it)"
        return stats
    work = tempfile.mkdtemp(prefix="advf-fuzz-")
    try:
        procs = []
        nsh = harness.NSHARDS
        runs = int(os.environ.get("ADVF_FUZZ_RUNS", "300000"))
        for sh in range(nsh):
            cdir = os.path.join(work, "corpus-%d" % sh)
            adir = os.path.join(work, "artifacts-%d" % sh)
            os.makedirs(cdir)
            os.makedirs(adir)
            if sh % 2 == 0:        # even shards start from the saved seeds, odd shards from an empty corpus
                for i, data in enumerate(seed_inputs()):
                    with open(os.path.join(cdir, "seed-%d" % i), "wb") as f:
                        f.write(data)
            cmd = [sys.executable, os.path.join(HERE, "c03_worker.py"), cdir, "-runs=%d" % runs, "-seed=%d" % (seed * 64 + sh + 1), "-max_len=400",
                   "-artifact_prefix=%s/" % adir, "-dict=%s" % os.path.join(HERE, "c03.dict"), "-print_final_stats=1", "-verbosity=0"]
            e = dict(os.environ, PYTHONPATH=os.pathsep.join([deps, env.VERIF]), ADVF_REPO=env.REPO)
            procs.append((sh, adir, cdir, subprocess.Popen(cmd, stdout=subprocess.PIPE, stderr=subprocess.STDOUT, env=e, cwd=work)))
        total_execs = 0
        crashes = 0
        corpus_sizes = []
        for sh, adir, cdir, pr in procs:
            try:
                outp, _ = pr.communicate(timeout=3600)
            except subprocess.TimeoutExpired:
                pr.kill()
                outp = b""
            txt = outp.decode("utf8", "replace")
            for line in txt.splitlines():
                if "stat::number_of_executed_units" in line:
                    total_execs += int(line.split(":")[-1])
            corpus_sizes.append(len(os.listdir(cdir)))
            for fn in sorted(os.listdir(adir)):
                with open(os.path.join(adir, fn), "rb") as f:
                    data = f.read()
                v, info = run_input(data)
                crashes += 1
                if v is not None:
                    harness.handle(col, "fuzz", {"data": data}, v)
                else:
                    col.notes.append("libFuzzer artifact %s did not reproduce outside the fuzzer" % fn)
        stats["atheris"] = {"shards": nsh, "runs_per_shard": runs, "executions": total_execs, "artifacts": crashes, "final_corpus_sizes": corpus_sizes,
                            "note": "a libFuzzer campaign is pinned only approximately by -seed; the saved input is the reproducible unit"}
        col.evaluations += total_execs
    finally:
        shutil.rmtree(work, ignore_errors=True)
    return stats
