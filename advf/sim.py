"""An executable adbd: the device simulator.

Pure synchronous logic, shared by the sync and async in-memory transports.  It decodes the
host's byte stream with the independent codec (wire.py), reacts as adbd does and resolves every
freedom the protocol leaves to the device from a *choice tape* (list of small ints; exhausted
tape == 0 == the benign choice).

Nothing in here imports adb_shell.
"""
import struct
from collections import deque

from . import wire
from .wire import (A_AUTH, A_CLSE, A_CNXN, A_OKAY, A_OPEN, A_SYNC, A_WRTE, Packet)


class Tape(object):
    """values: list of ints, or {"cycle": [...]} for a tape that repeats for ever."""

    def __init__(self, values=()):
        self.cycle = False
        if isinstance(values, dict):
            self.cycle = True
            values = values.get("cycle") or ()
        self.v = list(values)
        self.i = 0

    def draw(self, n):
        """An int in [0, n); 0 when the tape is exhausted."""
        if n <= 1 or not self.v:
            return 0
        if self.cycle:
            x = self.v[self.i % len(self.v)] % n
            self.i += 1
            return x
        if self.i < len(self.v):
            x = self.v[self.i] % n
            self.i += 1
            return x
        return 0

    @property
    def consumed(self):
        return self.i


def make_content(spec):
    """spec = {"pat": bytes, "n": int}  ->  (pat * k)[:n]"""
    if isinstance(spec, (bytes, bytearray)):
        return bytes(spec)
    pat = spec["pat"] or b"\0"
    n = spec["n"]
    reps = n // len(pat) + 1
    return (pat * reps)[:n]


class Stream(object):
    def __init__(self, lid, rid, dest, t_open):
        self.lid = lid            # host's local id  (arg0 of host packets)
        self.rid = rid            # device's id      (arg0 of device packets)
        self.dest = dest
        self.acks = deque()       # immediate packets (OKAY, CLSE replies): (seq, Packet)
        self.data = deque()       # service output: [seq, Packet, not_before]
        self.unacked = False      # a device WRTE is outstanding
        self.dev_closed = False   # device has put its CLSE on the wire
        self.dev_close_queued = False
        self.host_closed = False  # host sent CLSE
        self.written = []         # payloads of device WRTEs put on the wire, in order
        self.written_t = []       # virtual time each was completely handed to the host
        self.host_writes = []     # payloads of host WRTEs
        self.okays_from_host = 0
        self.t_open = t_open
        self.t_end = None         # time the stream stopped being live
        self.service = None
        self.eager_clse = False

        self.host_pending_ack = False
        self.open_acked = False
        self.index = None
        self.ready_at = 0.0        # the service is slow to start: nothing of this stream goes on the wire before this (virtual) time


class SimError(Exception):
    """The simulator itself is inconsistent (harness error, never a violation)."""


class HostProtocolViolation(object):
    """A deviation of the HOST from the protocol, noticed by the device model."""

    def __init__(self, rule, detail, index):
        self.rule = rule
        self.detail = detail
        self.index = index    # index into host_log

    def __repr__(self):
        return "%s: %s (host packet #%d)" % (self.rule, self.detail, self.index)


class DeviceSim(object):
    """One adbd.  Config keys (all optional):

    maxdata          int   maxdata announced in the device's CNXN (default 1 MiB)
    banner           bytes device banner
    auth             dict  {"mode": "none"|"key"|"pubkey"|"never", "accept": <key tag>, ...}  see _auth_*
    services         dict  dest bytes (without NUL) -> list of output chunks (bytes)
    default_service  list  chunks for unknown shell-like services (default: no output)
    fs               dict  path bytes -> {"mode","mtime","content"}       (regular files)
    dirs             dict  path bytes -> list of (mode,size,mtime,name)   (LIST replies)
    stats            dict  path bytes -> (mode,size,mtime)                (STAT override)
    rids             list  remote ids to hand out, in order (then 1000+k)
    cuts             list  sizes used cyclically to cut sync output into WRTE payloads (None: one per record)
    recv_sizes       list  DATA record sizes used cyclically by RECV (default 64 KiB)
    lag              list  per sync reply: number of further host packets the reply lags behind
    eager_clse       bool  default for "CLSE directly behind the last WRTE"
    push_fail        dict  {"at": "send"|"data"|"done", "k": int, "reason": bytes}
    push_withhold    bool  never answer the final DONE of a push
    recv_fail        dict  {"after": j, "reason": bytes}
    recv_bad_status  dict  {"after": j, "id": int}
    push_bad_status  dict  {"id": int}
    zero_clse_reply  bool  answer a host CLSE with CLSE(0, lid) (as adbd does once its peer is gone)
    dup_clse         bool  send a duplicate CLSE behind each device CLSE
    """

    def __init__(self, cfg=None, tape=None, clock=None):
        self.cfg = dict(cfg or {})
        self.tape = tape if tape is not None else Tape()
        self.clock = clock
        self.decoder = wire.StreamDecoder()
        self.maxdata = int(self.cfg.get("maxdata", wire.MAX_PAYLOAD))
        self.host_maxdata = None
        self.phase = "offline"        # offline | auth | online
        self.control = deque()        # (seq, Packet)
        self.streams = []             # every Stream ever opened, in OPEN order
        self.by_lid = {}              # lid -> Stream (live only)
        self.seq = 0
        self.host_count = 0
        self.host_log = []            # (t, Packet)
        self.device_log = []          # (t, Packet, rid or None)  -- when completely handed out
        self.violations = []          # HostProtocolViolation
        self.framing_error = None
        self.rids = list(self.cfg.get("rids") or [])
        self.rid_counter = 0
        self.lag = list(self.cfg.get("lag") or [])
        self.lag_i = 0
        self.auth_state = None
        self.tokens_issued = []
        self.sig_log = []             # (token signed against, signature bytes, verdict)
        self.pubkey_offered = None
        self.pushes = []              # completed or failed SEND transactions
        self.sync_requests = []       # (rid, name, arg)
        self.bytes_in = 0
        self.opens = []               # (t, lid, rid, dest)
        self.ignored_opens = []
        self.connects = 0
        self.answer_idx = 0
        self.host_cnxn = None

    # ------------------------------------------------------------------ helpers
    def now(self):
        return self.clock.time() if self.clock is not None else 0.0

    def _next_seq(self):
        self.seq += 1
        return self.seq

    def _violation(self, rule, detail):
        self.violations.append(HostProtocolViolation(rule, detail, len(self.host_log) - 1))

    def new_connection(self):
        """The transport was (re)connected: adbd forgets every stream."""
        self.decoder = wire.StreamDecoder()
        self.phase = "offline"
        self.control.clear()
        for s in self.streams:
            s.acks.clear()
            s.data.clear()
            self._end_stream(s)
        self.by_lid = {}
        self.connects += 1

    def _end_stream(self, s):
        if s.t_end is None:
            s.t_end = self.now()
        if self.by_lid.get(s.lid) is s:
            del self.by_lid[s.lid]

    # ------------------------------------------------------------------ host -> device
    def feed(self, data):
        """Bytes written by the host."""
        self.bytes_in += len(data)
        if self.framing_error is not None:
            return
        try:
            pkts = self.decoder.feed(data)
        except wire.FramingError as e:
            self.framing_error = e
            return
        for p in pkts:
            self.host_log.append((self.now(), p))
            self.host_count += 1
            self._on_host_packet(p)

    def _on_host_packet(self, p):
        if p.cmd == A_CNXN:
            self._on_cnxn(p)
        elif p.cmd == A_AUTH:
            self._on_auth(p)
        elif self.phase != "online":
            self._violation("packet-before-online", p.brief())
        elif p.cmd == A_OPEN:
            self._on_open(p)
        elif p.cmd == A_WRTE:
            self._on_wrte(p)
        elif p.cmd == A_OKAY:
            self._on_okay(p)
        elif p.cmd == A_CLSE:
            self._on_clse(p)
        else:
            self._violation("unexpected-command", p.brief())

    # -- handshake
    def _on_cnxn(self, p):
        auth = self.cfg.get("auth") or {"mode": "none"}
        if self.cfg.get("auth_after_first") and self.connects > 1 and auth.get("mode", "none") == "none":
            auth = {"mode": "never"}           # from the second connection on the device demands authentication
            self.cfg = dict(self.cfg, auth=auth)
        self.host_maxdata = p.arg1
        self.host_cnxn = p
        if self.cfg.get("mute"):
            return              # the device never answers
        if auth.get("mode", "none") == "none":
            self._send_cnxn()
        else:
            self.phase = "auth"
            self.auth_state = {"challenges": 0}
            self._send_token()

    def _send_cnxn(self):
        self._strays()
        self.phase = "online"
        per_conn = self.cfg.get("maxdata_by_connection")
        if per_conn:
            self.maxdata = int(per_conn[min(self.connects, len(per_conn)) - 1])
        banner = self.cfg.get("banner", b"device::ro.product.name=sim;\0")
        self.control.append((self._next_seq(), Packet(A_CNXN, int(self.cfg.get("version", wire.A_VERSION)), self.maxdata, banner)))
        # traffic of an earlier, broken session that was still in the pipe (USB-like links) arrives right behind the CNXN
        for (cmd, a0, a1, data) in self.cfg.get("after_cnxn") or ():
            self.control.append((self._next_seq(), Packet(cmd, a0, a1, data)))

    def _strays(self):
        """Stray packets in front of an answer (C05): stale traffic of an earlier session."""
        n = 0
        strays = self.cfg.get("strays")
        if strays:
            n = strays[self.answer_idx % len(strays)]
        self.answer_idx += 1
        for i in range(n):
            kind = self.tape.draw(3)
            if kind == 0:
                pk = Packet(A_CLSE, 77 + i, 78 + i, b"")
            elif kind == 1:
                pk = Packet(A_OKAY, 77 + i, 78 + i, b"")
            else:
                pk = Packet(A_WRTE, 77 + i, 78 + i, b"stale")
            self.control.append((self._next_seq(), pk))

    def _new_token(self):
        seeds = self.cfg.get("token_seed", b"tok")
        n = len(self.tokens_issued)
        # 20 "random" bytes, distinct per challenge and per connection
        import hashlib
        tok = hashlib.sha1(bytes(seeds) + struct.pack("<2I", self.connects, n)).digest()
        explicit = self.cfg.get("tokens")
        if explicit:
            tok = bytes(explicit[n % len(explicit)])          # the check dictates the challenges (e.g. the all-zero token)
        self.tokens_issued.append(tok)
        return tok

    def _send_token(self):
        self._strays()
        auth = self.cfg["auth"]
        bad = auth.get("bad_challenge_at")
        st = self.auth_state
        arg0 = wire.AUTH_TOKEN
        if bad is not None and st["challenges"] == bad:
            arg0 = auth.get("bad_arg0", 7)
        st["challenges"] += 1
        self.control.append((self._next_seq(), Packet(A_AUTH, arg0, 0, self._new_token())))

    def _on_auth(self, p):
        auth = self.cfg.get("auth") or {"mode": "none"}
        if self.phase != "auth":
            self._violation("auth-outside-handshake", p.brief())
            return
        if p.arg0 == wire.AUTH_SIGNATURE:
            token = self.tokens_issued[-1]
            verify = self.cfg.get("_verify")
            key = verify(p.data, token) if verify else None
            accepted = auth.get("mode") == "key" and key is not None and key == auth.get("accept")
            self.sig_log.append((token, p.data, key, accepted, len(self.host_log) - 1))
            if accepted:
                self._send_cnxn()
            else:
                self._send_token()
        elif p.arg0 == wire.AUTH_RSAPUBLICKEY:
            self.pubkey_offered = (p.data, len(self.host_log) - 1)
            accept = auth.get("mode") == "pubkey" or (auth.get("mode") == "key" and auth.get("pubkey_ok"))
            if auth.get("rechallenge_after_pubkey"):
                # adbd keeps challenging while the user has not (yet) confirmed the key
                self._send_token()
            if accept:
                self._send_cnxn()
            # else: the user never accepts; silence
        else:
            self._violation("auth-bad-arg0", p.brief())

    # -- streams
    def _alloc_rid(self):
        while True:
            if self.rids:
                rid = self.rids.pop(0)
            else:
                self.rid_counter += 1
                rid = 1000 + self.rid_counter
            rid &= 0xFFFFFFFF
            if rid == 0:
                continue
            if any(s.rid == rid and s.t_end is None for s in self.streams):
                continue
            return rid

    def _on_open(self, p):
        lid = p.arg0
        if lid == 0:
            self._violation("open-zero-id", p.brief())
            return
        if p.arg1 != 0:
            self._violation("open-arg1-nonzero", p.brief())
        if lid in self.by_lid:
            self._violation("open-duplicate-live-id", p.brief())
            return
        if not p.data.endswith(b"\0") or p.data.count(b"\0") != 1:
            self._violation("open-dest-not-nul-terminated", p.brief())
        dest = p.data.rstrip(b"\0")
        if any(dest.startswith(pre) for pre in (self.cfg.get("ignore_open") or ())):
            self.ignored_opens.append((self.now(), lid, dest))
            return            # a service that never answers the OPEN
        rid = self._alloc_rid()
        s = Stream(lid, rid, dest, self.now())
        eager = self.cfg.get("eager_clse")
        if isinstance(eager, (list, tuple)):
            eager = eager[len(self.streams) % len(eager)] if eager else False
        s.eager_clse = bool(eager)
        s.index = len(self.streams)
        for pre, delay in (self.cfg.get("open_delay") or {}).items():
            if dest.startswith(pre):
                s.ready_at = self.now() + delay
        self.streams.append(s)
        self.by_lid[lid] = s
        self.opens.append((self.now(), lid, rid, dest))
        s.acks.append((self._next_seq(), Packet(A_OKAY, rid, lid, b"")))
        self._start_service(s)

    def _find(self, p, what):
        s = self.by_lid.get(p.arg0)
        if s is None:
            self._violation("%s-on-unknown-stream" % what, p.brief())
            return None
        if p.arg1 != s.rid:
            self._violation("%s-wrong-remote-id" % what, "%s (device id is %d)" % (p.brief(), s.rid))
            return None
        return s

    def _on_wrte(self, p):
        s = self._find(p, "write")
        if s is None:
            return
        if len(p.data) > self.maxdata:
            self._violation("write-exceeds-maxdata", "%d > %d" % (len(p.data), self.maxdata))
        if len(p.data) == 0:
            self._violation("empty-write", p.brief())
        if s.host_pending_ack:
            self._violation("second-write-before-okay", p.brief())
        s.host_writes.append(p.data)
        s.host_pending_ack = True
        s.acks.append((self._next_seq(), Packet(A_OKAY, s.rid, s.lid, b"")))
        if s.service is not None and not s.dev_close_queued:
            s.service.on_data(p.data)

    def _on_okay(self, p):
        s = self._find(p, "okay")
        if s is None:
            return
        if not s.unacked:
            self._violation("okay-without-write", p.brief())
            return
        s.unacked = False
        s.okays_from_host += 1

    def _on_clse(self, p):
        s = self.by_lid.get(p.arg0)
        if s is None:
            self._violation("close-on-unknown-stream", p.brief())
            return
        if p.arg1 != s.rid:
            self._violation("close-wrong-remote-id", "%s (device id is %d)" % (p.brief(), s.rid))
            return
        s.host_closed = True
        if not s.dev_closed and not s.dev_close_queued:
            # device has not closed: adbd tears the socket down and answers CLSE
            if s.data and s.data[0][1].cmd == A_WRTE and not s.unacked and s.open_acked and s.data[0][2] <= self.host_count and self.tape.draw(2) == 1:
                # the service's next WRTE was already on its way when the host's CLSE arrived: it crosses the CLSE on the wire
                e_ = s.data.popleft()
                s.acks.append((e_[0], e_[1]))
                s.crossing_wrte = True
            s.data.clear()
            arg0 = 0 if self.cfg.get("zero_clse_reply") else s.rid
            s.acks.append((self._next_seq(), Packet(A_CLSE, arg0, s.lid, b"")))
            s.dev_close_queued = True
        elif not s.dev_closed:
            # our CLSE is still queued behind data; drop the data, keep the CLSE
            keep = [e for e in s.data if e[1].cmd == A_CLSE]
            s.data.clear()
            for e in keep:
                e[2] = 0
                s.data.append(e)
            s.unacked = False
        self._end_stream(s)

    # ------------------------------------------------------------------ services
    def _start_service(self, s):
        dest = s.dest
        if dest.startswith(b"sync:"):
            s.service = SyncService(self, s)
            return
        s.service = None
        services = self.cfg.get("services") or {}
        chunks = services.get(dest)
        if chunks is None:
            chunks = self.cfg.get("default_service") or []
        pace = (self.cfg.get("pace") or {}).get(dest) or []
        t = max(self.now(), s.ready_at)
        for k, c in enumerate(chunks):
            if len(c) == 0 and not self.cfg.get("allow_empty_wrte"):
                raise SimError("empty WRTE in script")
            t += pace[k % len(pace)] if pace else 0
            s.data.append([self._next_seq(), Packet(A_WRTE, s.rid, s.lid, bytes(c)), 0, t if pace else 0])
        t += pace[len(chunks) % len(pace)] if pace else 0
        s.data.append([self._next_seq(), Packet(A_CLSE, s.rid, s.lid, b""), 0, t if pace else 0])
        s.dev_close_queued = True
        if self.cfg.get("dup_clse"):
            s.data.append([self._next_seq(), Packet(A_CLSE, s.rid, s.lid, b""), 0])

    def emit(self, s, payloads, lag=0):
        """Service output: WRTE payloads, lagging `lag` further host packets."""
        nb = self.host_count + lag
        for pl in payloads:
            if not pl:
                raise SimError("empty WRTE from service")
            if self.host_maxdata is not None and len(pl) > self.host_maxdata:
                raise SimError("device WRTE larger than the host's maxdata")
            s.data.append([self._next_seq(), Packet(A_WRTE, s.rid, s.lid, bytes(pl)), nb])

    def next_lag(self):
        if not self.lag:
            return 0
        v = self.lag[self.lag_i % len(self.lag)]
        self.lag_i += 1
        return v

    # ------------------------------------------------------------------ device -> host
    def _candidates(self, ignore_lag=False):
        cands = []
        if self.control:
            cands.append((self.control[0][0], "control", None))
        now = self.now()
        for s in self.streams:
            if s.ready_at > now:
                continue
            if s.acks:
                cands.append((s.acks[0][0], "ack", s))
            if s.data and s.open_acked:
                seq, pkt, nb = s.data[0][:3]
                if len(s.data[0]) > 3 and s.data[0][3] > now:
                    continue            # the service has not produced this output yet
                if nb > self.host_count and not ignore_lag:
                    continue
                if s.unacked and (pkt.cmd == A_WRTE or (pkt.cmd == A_CLSE and not s.eager_clse)):
                    continue
                cands.append((seq, "data", s))
        cands.sort(key=lambda c: c[0])
        return cands

    def next_packet(self):
        """Pick the next packet to put on the wire, or None if the device has nothing to say."""
        cands = self._candidates()
        if not cands:
            cands = self._candidates(ignore_lag=True)
            if not cands:
                return None
            cands = cands[:1]   # a healthy device never withholds output for ever: release the oldest
        # the control queue (handshake) is never reordered
        if cands[0][1] == "control" or len(cands) == 1:
            pick = cands[0]
        else:
            pick = cands[self.tape.draw(len(cands))]
        _, kind, s = pick
        if kind == "control":
            _, pkt = self.control.popleft()
            return pkt, None
        if kind == "ack":
            _, pkt = s.acks.popleft()
            is_open_ack = False
            if pkt.cmd == A_OKAY:
                s.host_pending_ack = False
                is_open_ack = not s.open_acked
                s.open_acked = True     # the first OKAY of a stream answers its OPEN; service output follows it
            if pkt.cmd == A_CLSE:
                s.dev_closed = True
            return self._legacy_zero(pkt, s, is_open_ack), s
        pkt = s.data.popleft()[1]
        if pkt.cmd == A_WRTE:
            s.unacked = True
        elif pkt.cmd == A_CLSE:
            if not s.dev_closed:
                s.dev_closed = True
        return self._legacy_zero(pkt, s), s

    def _legacy_zero(self, pkt, s, is_open_ack=False):
        """Legacy devices address some packets with a zero host id (arg1 == 0); the library's zero-id fall-backs exist for them."""
        pat = self.cfg.get("zero_arg1")
        if not pat or is_open_ack or pkt.cmd not in (A_WRTE, A_OKAY, A_CLSE) or pkt.arg0 == 0:
            return pkt          # (never both ids zero: such a packet could not be attributed to any stream)
        # a device does this consistently per stream: mixing exact and zero host ids on one stream would split the stream over two
        # store keys, whose relative order no host could reconstruct
        if pat[s.index % len(pat)]:
            return Packet(pkt.cmd, pkt.arg0, 0, pkt.data)
        return pkt

    def next_ready_in(self):
        """Seconds until the device will have something to send although it is silent now (slow service start, paced output), or None."""
        now = self.now()
        gaps = []
        for s in self.streams:
            if s.ready_at > now and (s.acks or s.data):
                gaps.append(s.ready_at - now)
            elif s.data and s.open_acked and len(s.data[0]) > 3 and s.data[0][3] > now:
                pkt = s.data[0][1]
                if not (s.unacked and (pkt.cmd == A_WRTE or (pkt.cmd == A_CLSE and not s.eager_clse))):
                    gaps.append(s.data[0][3] - now)
        return min(gaps) if gaps else None

    def delivered(self, pkt, s):
        """The transport handed the last byte of `pkt` to the host."""
        self.device_log.append((self.now(), pkt, s.rid if s is not None else None))
        if s is not None and pkt.cmd == A_CLSE and getattr(s, "t_dev_clse", None) is None:
            s.t_dev_clse = self.now()       # when the device's CLSE was completely handed to the host
        if s is not None and pkt.cmd == A_WRTE:
            s.written.append(pkt.data)
            s.written_t.append(self.now())

    # ------------------------------------------------------------------ queries for oracles
    def stream_for_open(self, index):
        """The Stream created by the index-th OPEN of the session(s)."""
        return self.streams[index] if 0 <= index < len(self.streams) else None

    def all_streams(self):
        return list(self.streams)

    def quiescent(self):
        return not self._candidates(ignore_lag=True)


class SyncService(object):
    """adbd's file sync service over the model filesystem."""

    def __init__(self, sim, stream):
        self.sim = sim
        self.s = stream
        self.buf = bytearray()
        self.mode = "idle"        # idle | send
        self.cur = None
        self.cut_i = 0
        self.failed = False

    # -- output
    def _cut(self, records):
        """records: list of bytes (one per sync record) -> list of WRTE payloads."""
        cuts = self.sim.cfg.get("cuts")
        limit = self.sim.host_maxdata or wire.MAX_PAYLOAD
        if not cuts:
            out = []
            for r in records:
                for i in range(0, len(r), limit):
                    out.append(r[i:i + limit])
            return out
        stream = b"".join(records)
        out = []
        pos = 0
        while pos < len(stream):
            n = cuts[self.cut_i % len(cuts)]
            self.cut_i += 1
            n = max(1, min(int(n), limit))
            out.append(stream[pos:pos + n])
            pos += n
        return out

    def reply(self, records):
        self.sim.emit(self.s, self._cut(records), self.sim.next_lag())

    # -- input
    def on_data(self, data):
        self.buf += data
        while True:
            if len(self.buf) < 8:
                return
            id_, n = struct.unpack_from("<2I", self.buf, 0)
            if self.mode == "send":
                if id_ == wire.ID_DATA:
                    if n > wire.SYNC_DATA_MAX:
                        self.sim._violation("sync-data-exceeds-64k", "%d" % n)
                    if len(self.buf) < 8 + n:
                        return
                    chunk = bytes(self.buf[8:8 + n])
                    del self.buf[:8 + n]
                    self._send_data(chunk)
                    continue
                if id_ == wire.ID_DONE:
                    del self.buf[:8]
                    self._send_done(n)
                    continue
                self.sim._violation("sync-unexpected-id-in-send", wire.SYNC_NAMES.get(id_, hex(id_)))
                del self.buf[:8]
                continue
            if id_ in (wire.ID_LIST, wire.ID_STAT, wire.ID_RECV, wire.ID_SEND):
                # the property quantifies over device paths of up to 1024 bytes; for SEND the request carries '<path>,<mode>' (up to 11 bytes more)
                if n > (1024 + 11 if id_ == wire.ID_SEND else 1024):
                    self.sim._violation("sync-path-too-long", "%d" % n)
                if len(self.buf) < 8 + n:
                    return
                arg = bytes(self.buf[8:8 + n])
                del self.buf[:8 + n]
                self.sim.sync_requests.append((self.s.rid, wire.SYNC_NAMES[id_], arg))
                getattr(self, "_req_" + wire.SYNC_NAMES[id_].lower())(arg)
                continue
            if id_ == wire.ID_QUIT:
                del self.buf[:8]
                continue
            self.sim._violation("sync-unknown-request", hex(id_))
            del self.buf[:8]

    # -- requests
    def _req_list(self, path):
        dents = (self.sim.cfg.get("dirs") or {}).get(path, [])
        recs = [wire.sync_dent(m, sz, mt, nm) for (m, sz, mt, nm) in dents]
        recs.append(wire.sync_list_done())
        self.reply(recs)

    def stat_of(self, path):
        cfg = self.sim.cfg
        st = (cfg.get("stats") or {}).get(path)
        if st is not None:
            return tuple(st)
        f = (cfg.get("fs") or {}).get(path)
        if f is not None:
            return (f.get("mode", 0o100644), len(make_content(f["content"])) & 0xFFFFFFFF, f.get("mtime", 0))
        return (0, 0, 0)

    def _req_stat(self, path):
        self.reply([wire.sync_stat(*self.stat_of(path))])

    def _req_recv(self, path):
        cfg = self.sim.cfg
        f = (cfg.get("fs") or {}).get(path)
        rf = cfg.get("recv_fail")
        bad = cfg.get("recv_bad_status")
        if f is None and rf is None and bad is None:
            self.reply([wire.sync_fail(b"No such file or directory")])
            return
        content = make_content(f["content"]) if f is not None else b""
        sizes = cfg.get("recv_sizes") or [wire.SYNC_DATA_MAX]
        recs = []
        pos = 0
        i = 0
        empties = set(cfg.get("recv_empty_at") or ())     # positions (record indexes) at which an extra zero-length DATA record is sent
        while pos < len(content):
            if len(recs) in empties:
                recs.append(wire.sync_data(b""))
            n = max(1, min(int(sizes[i % len(sizes)]), wire.SYNC_DATA_MAX))
            i += 1
            recs.append(wire.sync_data(content[pos:pos + n]))
            pos += n
        if len(recs) in empties or (not recs and empties):
            recs.append(wire.sync_data(b""))
        if rf is not None:
            j = min(rf.get("after", 0), len(recs))
            recs = recs[:j] + [wire.sync_fail(rf.get("reason", b"fail"))]
        elif bad is not None:
            j = min(bad.get("after", 0), len(recs))
            recs = recs[:j] + [bad.get("raw") or struct.pack("<2I", bad["id"], 0)]
        else:
            recs.append(wire.sync_done())
        self.reply(recs)

    def _req_send(self, arg):
        self.mode = "send"
        self.cur = {"spec": arg, "chunks": [], "content": bytearray(), "mtime": None, "status": None,
                    "rid": self.s.rid}
        self.failed = False
        pf = self.sim.cfg.get("push_fail")
        if pf and pf.get("at") == "send":
            self._fail(pf)

    def _fail(self, pf):
        if not self.failed:
            self.failed = True
            self.cur["status"] = "FAIL"
            self.cur["fail_host_index"] = len(self.sim.host_log) - 1
            self.reply([wire.sync_fail(pf.get("reason", b"fail"))])

    def _send_data(self, chunk):
        self.cur["chunks"].append(len(chunk))
        self.cur["content"] += chunk
        pf = self.sim.cfg.get("push_fail")
        if pf and pf.get("at") == "data" and len(self.cur["chunks"]) > pf.get("k", 0):
            self._fail(pf)

    def _send_done(self, mtime):
        self.cur["mtime"] = mtime
        self.cur["t_done"] = self.sim.now()
        pf = self.sim.cfg.get("push_fail")
        bad = self.sim.cfg.get("push_bad_status")
        if pf and not self.failed:
            self._fail(pf)         # "done", or a "data" index beyond the last chunk
        elif self.failed:
            pass
        elif bad is not None:
            self.cur["status"] = "BAD"
            self.reply([bad.get("raw") or struct.pack("<2I", bad["id"], 0)])
        elif self.sim.cfg.get("push_withhold"):
            self.cur["status"] = "WITHHELD"
        else:
            self.cur["status"] = "OKAY"
            self.reply([wire.sync_okay()])
        self.cur["content"] = bytes(self.cur["content"])
        self.sim.pushes.append(self.cur)
        self.cur = None
        self.mode = "idle"
