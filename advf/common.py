"""Oracle pieces shared by several checks."""
from .harness import Violation


def generic_violation(out, case, framing=False, protocol=False):
    """Violations visible in any simulator run.  Each check opts in to the rule families its
    own property states (framing: C02; per-stream protocol: C04/C14)."""
    for sim in out.sims:
        if framing and sim.framing_error is not None:
            return Violation("host-stream-undecodable", str(sim.framing_error))
        if protocol and sim.violations:
            v = sim.violations[0]
            return Violation("host-protocol:" + v.rule, "%r; host log tail: %s" % (v, [p.brief() for _, p in sim.host_log[max(0, v.index - 4):v.index + 1]]))
    return None


def is_timeout(res):
    return "exc" in res and res["exc"] in ("AdbTimeoutError", "TcpTimeoutException")


def host_stream_packets(sim, stream):
    """Host packets addressed to `stream` (by local id, within its lifetime)."""
    out = []
    for t, p in sim.host_log:
        if p.arg0 == stream.lid and t >= stream.t_open:
            out.append(p)
    return out


def typed(x):
    """Type-strict view of a result: bytes and bytearray (or str and bytes, list and tuple) compare unequal."""
    if isinstance(x, dict):
        return {k: typed(v) for k, v in x.items()}
    if isinstance(x, (list, tuple)):
        return (type(x).__name__, [typed(v) for v in x])
    return (type(x).__name__, x)
