"""JSON encoding of cases (bytes, tuples, dicts with bytes keys) for replay files, hashing and samples."""
import hashlib
import json


def to_jsonable(x):
    if isinstance(x, (bytes, bytearray)):
        return {"$b": bytes(x).hex()}
    if isinstance(x, dict):
        if all(isinstance(k, str) for k in x):
            return {k: to_jsonable(v) for k, v in x.items() if not k.startswith("_")}
        return {"$d": [[to_jsonable(k), to_jsonable(v)] for k, v in x.items()]}
    if isinstance(x, (list, tuple)):
        return [to_jsonable(v) for v in x]
    if isinstance(x, (str, int, float, bool)) or x is None:
        return x
    return {"$repr": repr(x)}


def from_jsonable(x):
    if isinstance(x, dict):
        if "$b" in x and len(x) == 1:
            return bytes.fromhex(x["$b"])
        if "$d" in x and len(x) == 1:
            return {_key(from_jsonable(k)): from_jsonable(v) for k, v in x["$d"]}
        return {k: from_jsonable(v) for k, v in x.items()}
    if isinstance(x, list):
        return [from_jsonable(v) for v in x]
    return x


def _key(k):
    if isinstance(k, list):
        return tuple(k)
    return k


def dumps(x, **kw):
    return json.dumps(to_jsonable(x), sort_keys=True, **kw)


def loads(s):
    return from_jsonable(json.loads(s))


def case_hash(x):
    return hashlib.sha1(dumps(x).encode()).hexdigest()[:16]


def brief(x, limit=600):
    """A short human-readable rendering of a case for evidence samples."""
    def shorten(v):
        if isinstance(v, (bytes, bytearray)):
            v = bytes(v)
            return repr(v) if len(v) <= 24 else "%r..(%d bytes)" % (v[:16], len(v))
        if isinstance(v, dict):
            return {(shorten(k) if not isinstance(k, str) else k): shorten(w) for k, w in v.items() if not (isinstance(k, str) and k.startswith("_"))}
        if isinstance(v, (list, tuple)):
            if len(v) > 12:
                return [shorten(w) for w in v[:10]] + ["..(%d items)" % len(v)]
            return [shorten(w) for w in v]
        return v
    s = json.dumps(shorten(x), sort_keys=True, default=repr)
    return s if len(s) <= limit else s[:limit] + "..."
