"""The harness owns the schedule: cooperative schedulers for threads (sync API) and asyncio tasks (async API).

Only one worker runs at a time; a baton is handed over at every *yield point*:
  * CoopLock.acquire (before trying, and while blocked), CoopLock.release
  * every transport call (WireCore.yield_hook)
  * optionally every traced line / opcode of selected functions (sys.settrace in the worker)
At a yield point the controller picks the next runnable worker from a schedule:
  * a choice tape (list of ints; 0 / exhausted = keep running the current worker), or
  * an explicit preemption plan {step index: worker index}.
All yield points are sound for threads (the interpreter may switch between any two bytecodes).
"""
import asyncio
import sys
import threading


class SchedulerAbort(BaseException):
    """Raised inside a worker to unwind it when the controller gives up (deadlock / step budget)."""


class Worker(object):
    def __init__(self, idx, fn):
        self.idx = idx
        self.fn = fn
        self.event = threading.Event()
        self.state = "ready"       # ready | blocked | done
        self.blocked_on = None
        self.result = None
        self.exc = None
        self.thread = None
        self.steps = 0


class ThreadScheduler(object):
    def __init__(self, tape=(), plan=None, max_steps=20000, trace_targets=None, trace_opcodes=False):
        self.rng = None
        if isinstance(tape, dict):
            # {"seed": n, "p": q}: pseudo-random schedule for the WHOLE run: at every yield point switch to a random other worker with probability q
            import random
            self.rng = random.Random(tape.get("seed", 0))
            self.switch_p = tape.get("p", 0.3)
            tape = ()
        self.tape = list(tape)
        self.tape_i = 0
        self.plan = dict(plan or {})       # step -> worker idx to switch to
        self.max_steps = max_steps
        self.workers = []
        self.ctrl = threading.Event()
        self.current = None
        self.step = 0
        self.abort = False
        self.deadlock = None               # description when detected
        self.budget_exhausted = False
        self.log = []                      # (step, chosen idx, runnable idxs, tag of the yield point that ended the previous slice)
        self.by_thread = {}
        self.trace_targets = trace_targets or set()     # code objects to trace
        self.trace_opcodes = trace_opcodes
        self.last_tag = None
        self.switches = 0
        self.foreign_reads = 0

    # ------------------------------------------------------------------ worker side
    def me(self):
        return self.by_thread.get(threading.get_ident())

    def yield_point(self, tag):
        w = self.me()
        if w is None or self.current is not w:
            return
        if self.abort:
            raise SchedulerAbort()
        self.last_tag = tag
        self.ctrl.set()
        w.event.wait()
        w.event.clear()
        if self.abort:
            raise SchedulerAbort()

    def block_on(self, lock):
        """Current worker cannot proceed until `lock` is free."""
        w = self.me()
        w.state = "blocked"
        w.blocked_on = lock
        self.last_tag = "blocked"
        self.ctrl.set()
        w.event.wait()
        w.event.clear()
        w.state = "ready"
        w.blocked_on = None
        if self.abort:
            raise SchedulerAbort()

    def _tracer(self, frame, event, arg):
        if frame.f_code in self.trace_targets:
            if self.trace_opcodes:
                frame.f_trace_opcodes = True
            return self._local_trace
        return None

    def _local_trace(self, frame, event, arg):
        if event == "line" or (event == "opcode" and self.trace_opcodes):
            self.yield_point("trace:%s:%s" % (frame.f_code.co_name, frame.f_lasti))
        return self._local_trace

    def _run_worker(self, w):
        self.by_thread[threading.get_ident()] = w
        w.event.wait()
        w.event.clear()
        try:
            if self.abort:
                raise SchedulerAbort()
            if self.trace_targets:
                sys.settrace(self._tracer)
            try:
                w.result = w.fn()
            finally:
                if self.trace_targets:
                    sys.settrace(None)
        except SchedulerAbort:
            w.exc = SchedulerAbort()
        except BaseException as e:  # noqa
            w.exc = e
        finally:
            w.state = "done"
            self.ctrl.set()

    # ------------------------------------------------------------------ controller side
    def spawn(self, fn):
        w = Worker(len(self.workers), fn)
        self.workers.append(w)
        return w

    def _runnable(self):
        out = []
        for w in self.workers:
            if w.state == "ready":
                out.append(w)
            elif w.state == "blocked" and w.blocked_on.owner is None:
                out.append(w)
        return out

    def _choose(self, runnable):
        # candidates: the current worker first (if runnable), then the others by index
        cands = [w for w in runnable if w is self.current] + [w for w in runnable if w is not self.current]
        if self.step in self.plan:
            want = self.plan[self.step]
            for w in cands:
                if w.idx == want:
                    return w
            return cands[0]
        if self.rng is not None:
            if len(cands) > 1 and self.rng.random() < self.switch_p:
                return cands[1 + self.rng.randrange(len(cands) - 1)] if cands[0] is self.current else cands[self.rng.randrange(len(cands))]
            return cands[0]
        if self.tape_i < len(self.tape):
            v = self.tape[self.tape_i] % len(cands)
            self.tape_i += 1
            return cands[v]
        return cands[0]

    def run(self):
        for w in self.workers:
            w.thread = threading.Thread(target=self._run_worker, args=(w,), daemon=True)
            w.thread.start()
        while True:
            unfinished = [w for w in self.workers if w.state != "done"]
            if not unfinished:
                break
            runnable = self._runnable()
            if not runnable:
                self.deadlock = "deadlock: %s" % ", ".join("worker %d blocked on %s" % (w.idx, getattr(w.blocked_on, "name", "?")) for w in unfinished)
                self._abort_all()
                break
            if self.step >= self.max_steps:
                self.budget_exhausted = True
                self._abort_all()
                break
            pick = self._choose(runnable)
            self.log.append((self.step, pick.idx, [w.idx for w in runnable], self.last_tag))
            if self.current is not None and pick is not self.current and self.current.state != "done":
                self.switches += 1
            self.step += 1
            pick.steps += 1
            self.current = pick
            self.ctrl.clear()
            pick.event.set()
            self.ctrl.wait()
        for w in self.workers:
            w.thread.join(timeout=5)
        return self

    def _abort_all(self):
        self.abort = True
        for w in self.workers:
            if w.state != "done":
                self.current = w
                self.ctrl.clear()
                w.event.set()
                self.ctrl.wait(timeout=5)


class CoopLock(object):
    """Drop-in for threading.Lock inside adb_device (constructed via the module's `Lock` binding)."""
    _n = 0

    def __init__(self, sched_ref):
        self._sched_ref = sched_ref
        self.owner = None
        CoopLock._n += 1
        self.name = "lock#%d" % CoopLock._n

    def acquire(self, blocking=True, timeout=-1):
        sched = self._sched_ref()
        w = sched.me() if sched is not None else None
        if w is None:
            if self.owner is not None:
                raise RuntimeError("CoopLock held outside the scheduler")
            self.owner = "main"
            return True
        sched.yield_point("acquire:" + self.name)
        while self.owner is not None:
            sched.block_on(self)
        self.owner = w
        return True

    def release(self):
        sched = self._sched_ref()
        self.owner = None
        if sched is not None and sched.me() is not None:
            sched.yield_point("release:" + self.name)

    def locked(self):
        return self.owner is not None

    def __enter__(self):
        self.acquire()
        return self

    def __exit__(self, *a):
        self.owner = None
        sched = self._sched_ref()
        if sched is not None and sched.me() is not None and not sched.abort:
            sched.yield_point("release:" + self.name)


# ============================================================================= asyncio tasks
class AsyncScheduler(object):
    """Deterministic scheduler for asyncio tasks.

    Workers are tasks inside one event loop.  A task parks on a scheduler-owned future at every yield point
    (transport call; *contended* lock acquisition -- an uncontended asyncio.Lock.acquire() does not suspend,
    and contended acquisition is FIFO, as asyncio.Lock guarantees).  Exactly one task is released at a time and the
    controller waits until it parks again or finishes.
    """

    def __init__(self, tape=(), plan=None, max_steps=20000):
        self.rng = None
        if isinstance(tape, dict):
            import random
            self.rng = random.Random(tape.get("seed", 0))
            self.switch_p = tape.get("p", 0.3)
            tape = ()
        self.tape = list(tape)
        self.tape_i = 0
        self.plan = dict(plan or {})
        self.max_steps = max_steps
        self.workers = []          # dicts
        self.step = 0
        self.deadlock = None
        self.budget_exhausted = False
        self.log = []
        self.current = None
        self.switches = 0
        self.abort = False
        self.loop = None
        self._wake_ctrl = None

    def spawn(self, coro_fn):
        w = {"idx": len(self.workers), "fn": coro_fn, "state": "ready", "fut": None, "task": None, "result": None, "exc": None, "blocked_on": None}
        self.workers.append(w)
        return w

    def me(self):
        t = asyncio.current_task()
        for w in self.workers:
            if w["task"] is t:
                return w
        return None

    async def yield_point(self, tag):
        w = self.me()
        if w is None:
            return
        if self.abort:
            raise SchedulerAbort()
        w["fut"] = self.loop.create_future()
        w["state"] = "ready"
        self._signal()
        await w["fut"]
        if self.abort:
            raise SchedulerAbort()

    async def block_on(self, lock):
        w = self.me()
        w["fut"] = self.loop.create_future()
        w["state"] = "blocked"
        w["blocked_on"] = lock
        self._signal()
        await w["fut"]
        w["state"] = "ready"
        w["blocked_on"] = None
        if self.abort:
            raise SchedulerAbort()

    def _signal(self):
        if self._wake_ctrl is not None and not self._wake_ctrl.done():
            self._wake_ctrl.set_result(None)

    async def _worker_main(self, w):
        w["fut"] = self.loop.create_future()
        await w["fut"]
        try:
            if self.abort:
                raise SchedulerAbort()
            w["result"] = await w["fn"]()
        except SchedulerAbort:
            w["exc"] = SchedulerAbort()
        except BaseException as e:  # noqa
            w["exc"] = e
        finally:
            w["state"] = "done"
            self._signal()

    def _runnable(self):
        out = []
        for w in self.workers:
            if w["state"] == "ready":
                out.append(w)
            elif w["state"] == "blocked" and w["blocked_on"].can_take(w):
                out.append(w)
        return out

    def _choose(self, runnable):
        cands = [w for w in runnable if w is self.current] + [w for w in runnable if w is not self.current]
        if self.step in self.plan:
            for w in cands:
                if w["idx"] == self.plan[self.step]:
                    return w
            return cands[0]
        if self.rng is not None:
            if len(cands) > 1 and self.rng.random() < self.switch_p:
                return cands[1 + self.rng.randrange(len(cands) - 1)] if cands[0] is self.current else cands[self.rng.randrange(len(cands))]
            return cands[0]
        if self.tape_i < len(self.tape):
            v = self.tape[self.tape_i] % len(cands)
            self.tape_i += 1
            return cands[v]
        return cands[0]

    async def run(self):
        self.loop = asyncio.get_running_loop()
        for w in self.workers:
            w["task"] = self.loop.create_task(self._worker_main(w))
        await asyncio.sleep(0)      # let every worker park on its start future
        while True:
            unfinished = [w for w in self.workers if w["state"] != "done"]
            if not unfinished:
                break
            runnable = self._runnable()
            if not runnable:
                self.deadlock = "deadlock: %s" % ", ".join("task %d blocked" % w["idx"] for w in unfinished)
                await self._abort_all()
                break
            if self.step >= self.max_steps:
                self.budget_exhausted = True
                await self._abort_all()
                break
            pick = self._choose(runnable)
            self.log.append((self.step, pick["idx"], [w["idx"] for w in runnable]))
            if self.current is not None and pick is not self.current and self.current["state"] != "done":
                self.switches += 1
            self.step += 1
            self.current = pick
            self._wake_ctrl = self.loop.create_future()
            fut = pick["fut"]
            pick["fut"] = None
            fut.set_result(None)
            await self._wake_ctrl
        for w in self.workers:
            if not w["task"].done():
                await asyncio.wait([w["task"]], timeout=1)
        return self

    async def _abort_all(self):
        self.abort = True
        for w in self.workers:
            if w["state"] != "done" and w["fut"] is not None and not w["fut"].done():
                self._wake_ctrl = self.loop.create_future()
                w["fut"].set_result(None)
                try:
                    await asyncio.wait_for(self._wake_ctrl, 1)
                except asyncio.TimeoutError:
                    pass


class CoopAsyncLock(object):
    """Stand-in for asyncio.Lock: uncontended acquire does not suspend; contended acquisition is FIFO."""
    _n = 0

    def __init__(self, sched_ref):
        self._sched_ref = sched_ref
        self.owner = None
        self.waiters = []
        CoopAsyncLock._n += 1
        self.name = "alock#%d" % CoopAsyncLock._n

    def can_take(self, w):
        return self.owner is None and self.waiters and self.waiters[0] is w

    async def acquire(self):
        sched = self._sched_ref()
        w = sched.me() if sched is not None else None
        if w is None:
            self.owner = "main"
            return True
        if self.owner is None and not self.waiters:
            self.owner = w
            return True
        self.waiters.append(w)
        try:
            while not self.can_take(w):
                await sched.block_on(self)
        except BaseException:
            self.waiters.remove(w)
            raise
        self.waiters.pop(0)
        self.owner = w
        return True

    def release(self):
        self.owner = None

    def locked(self):
        return self.owner is not None

    async def __aenter__(self):
        await self.acquire()
        return None

    async def __aexit__(self, *a):
        self.release()
