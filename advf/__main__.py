"""CLI:  python -m advf check <ID> [--tier quick|thorough]   |   python -m advf replay <path>"""
import argparse
import importlib
import json
import os
import sys
import traceback


def main(argv=None):
    ap = argparse.ArgumentParser(prog="advf")
    sub = ap.add_subparsers(dest="cmd", required=True)
    c = sub.add_parser("check")
    c.add_argument("id")
    c.add_argument("--tier", default=os.environ.get("VERIF_TIER", "quick"), choices=["quick", "thorough"])
    r = sub.add_parser("replay")
    r.add_argument("path")
    args = ap.parse_args(argv)
    try:
        seed = int(os.environ.get("VERIF_SEED", "1") or "1")
    except ValueError:
        seed = 1
    seed = seed % (2 ** 31)
    try:
        from . import env, codec
        target = args.id.upper() if args.cmd == "check" else None
        if args.cmd == "replay":
            with open(args.path) as f:
                target = json.load(f).get("property")
        if target == "C20":
            # the fake libusb backend must be in sys.modules before adb_shell is imported (this check's own process)
            from . import fakeusb1
            fakeusb1.install()
        env.lib()
        if args.cmd == "check":
            mod = importlib.import_module("advf.checks.%s" % args.id.lower())
            return mod.run(args.tier, seed)
        with open(args.path) as f:
            doc = codec.from_jsonable(json.load(f))
        mod = importlib.import_module("advf.checks.%s" % doc["property"].lower())
        v = mod.replay(doc["part"], doc["case"])
        if v is None:
            print("replay of %s: property %s held (no violation reproduced)" % (args.path, doc["property"]))
            return 0
        print("VIOLATION property=%s replay=%s" % (doc["property"], args.path))
        print("  part=%s rule=%s\n  %s" % (doc["part"], v.rule, v.detail[:3000]))
        return 1
    except SystemExit:
        raise
    except BaseException as e:  # noqa  -- harness errors must never look like violations
        sys.stdout.flush()
        sys.stderr.write("HARNESS-ERROR: %s\n" % "".join(traceback.format_exception(type(e), e, e.__traceback__)))
        return 2


if __name__ == "__main__":
    sys.exit(main())
