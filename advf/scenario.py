"""Shared Hypothesis strategies (construction, not rejection)."""
from hypothesis import strategies as st

from .transports import EMPTY_READ

U32 = 2 ** 32 - 1
BOUNDARY_U32 = [0, 1, 2, 2 ** 31 - 1, 2 ** 31, 2 ** 32 - 2, 2 ** 32 - 1]


def u32():
    return st.one_of(st.sampled_from(BOUNDARY_U32), st.integers(0, U32))


# ------------------------------------------------------------------ byte material
UTF8_PIECES = [
    b"a", b"Z", b"0", b" ", b"\n", b"\r\n", b"\t", b"\x00", b"\x7f",
    "é".encode(), "ß".encode(), "€".encode(), "中".encode(), "\U0001F600".encode(), "\U00010348".encode(),
    b"\x80", b"\xbf", b"\xc0\x80", b"\xe0\x80\x80", b"\xed\xa0\x80", b"\xf4\x90\x80\x80", b"\xff", b"\xfe",
    b"\xc3", b"\xe2\x82", b"\xf0\x9f\x98", b"\\", b"\\x80",
]


def utf8ish(max_pieces=12):
    """Byte strings mixing ASCII, 2/3/4-byte sequences, lone continuation bytes, overlongs, 0x80..0xff."""
    return st.one_of(
        st.lists(st.sampled_from(UTF8_PIECES), min_size=0, max_size=max_pieces).map(b"".join),
        st.binary(min_size=0, max_size=24),
        st.text(max_size=10).map(lambda s: s.encode("utf8", "surrogatepass")),
    )


def content_spec(max_n=3 * 1024 * 1024, sizes=None):
    """{"pat": bytes, "n": int}: (pat*k)[:n] -- a multi-MiB file costs a few drawn bytes."""
    size = st.one_of(st.sampled_from(sizes), st.integers(0, 300)) if sizes else st.integers(0, max_n)
    return st.fixed_dictionaries({"pat": st.binary(min_size=1, max_size=11), "n": size})


# ------------------------------------------------------------------ tapes
def frag_tape():
    """Read-fragmentation tape: [] = whole reads; values = max fragment size; EMPTY_READ = empty read."""
    small = st.sampled_from([1, 2, 3, 7, 8, 23, 24, 25, 100, 4095, 4096, 4097, EMPTY_READ])
    return st.one_of(
        st.just([]),
        st.builds(lambda v: {"cycle": v}, st.lists(st.one_of(small, st.integers(1, 70000)), min_size=1, max_size=8)),
        st.lists(st.one_of(small, st.integers(0, 70000)), min_size=1, max_size=40),
        st.just({"cycle": [1]}),
    )


def min_frag(tape):
    vals = tape.get("cycle") if isinstance(tape, dict) else tape
    vals = [v for v in (vals or []) if v and v != EMPTY_READ]
    return min(vals) if vals else None


def tame_frag(tape, total_bytes, budget=150000):
    """Keep the number of transport calls bounded: enlarge tiny fragments when the traffic is large (deterministic)."""
    m = min_frag(tape)
    if not isinstance(tape, dict) or m is None:
        return tape
    need = total_bytes // max(1, budget) + 1
    if m >= need:
        return tape
    return {"cycle": [v if (v == EMPTY_READ or v == 0) else max(v, need) for v in tape["cycle"]]}


def dev_tape(max_len=40):
    return st.lists(st.integers(0, 7), min_size=0, max_size=max_len)


def rid_list(n=8):
    """Device-chosen stream ids: mostly disjoint from the host's small local ids, sometimes equal to them."""
    far = st.one_of(st.sampled_from([2 ** 31, 2 ** 32 - 1, 2 ** 16, 77777]), st.integers(100, U32))
    near = st.integers(1, 6)
    return st.one_of(
        st.lists(far, min_size=0, max_size=n, unique=True),
        st.lists(far, min_size=0, max_size=n, unique=True),
        st.lists(far, min_size=0, max_size=n, unique=True),
        st.lists(st.one_of(far, near), min_size=0, max_size=n, unique=True),
    )


def maxdata():
    return st.one_of(
        st.sampled_from([4096, 16384, 65536, 65536 + 8, 131072, 262144, 1048576]),
        st.integers(4096, 1048576),
    )


def flavour():
    return st.sampled_from(["raises", "empty"])


def device_path(max_len=1024):
    seg = st.one_of(st.sampled_from(["sdcard", "data", "tmp", "a", "ü", "文件", "x y", "f.txt"]),
                    st.text(alphabet=st.characters(blacklist_categories=("Cs",), blacklist_characters="\x00"), min_size=1, max_size=12))
    return st.one_of(
        st.lists(seg, min_size=1, max_size=5).map(lambda p: "/" + "/".join(p)),
        st.integers(1, max_len).map(lambda n: ("/" + "p" * n)[:n]),
    )
