"""Shared Hypothesis strategies (construction, not rejection)."""
from hypothesis import strategies as st

from .transports import EMPTY_READ  # noqa (re-exported)

U32 = 2 ** 32 - 1
BOUNDARY_U32 = [0, 1, 2, 2 ** 31 - 1, 2 ** 31, 2 ** 32 - 2, 2 ** 32 - 1]


def u32():
    return st.one_of(st.sampled_from(BOUNDARY_U32), st.integers(0, U32))


# ------------------------------------------------------------------ byte material
UTF8_PIECES = [
    b"a", b"Z", b"0", b" ", b"\n", b"\r\n", b"\t", b"\x00", b"\x7f",
    "é".encode(), "ß".encode(), "€".encode(), "中".encode(), "\U0001F600".encode(), "\U00010348".encode(),
    b"\x80", b"\xbf", b"\xc0\x80", b"\xe0\x80\x80", b"\xed\xa0\x80", b"\xf4\x90\x80\x80", b"\xff", b"\xfe",
    b"\xc3", b"\xe2\x82", b"\xf0\x9f\x98", b"\\", b"\\x80",
    b"\xef\xbb\xbf", b"\xef\xbb\xbf", b"\xef\xbb", b"\xff\xfe", b"\xfe\xff",        # byte-order marks (UTF-8 BOM = U+FEFF, an ordinary character of the output)
]


def utf8ish(max_pieces=12):
    """Byte strings mixing ASCII, 2/3/4-byte sequences, lone continuation bytes, overlongs, 0x80..0xff."""
    return st.one_of(
        st.lists(st.sampled_from(UTF8_PIECES), min_size=0, max_size=max_pieces).map(b"".join),
        st.binary(min_size=0, max_size=24),
        st.text(max_size=10).map(lambda s: s.encode("utf8", "surrogatepass")),
    )


def content_spec(max_n=3 * 1024 * 1024, sizes=None):
    """{"pat": bytes, "n": int}: (pat*k)[:n] -- a multi-MiB file costs a few drawn bytes."""
    size = st.one_of(st.sampled_from(sizes), st.integers(0, 300)) if sizes else st.integers(0, max_n)
    return st.fixed_dictionaries({"pat": st.binary(min_size=1, max_size=11), "n": size})


# ------------------------------------------------------------------ tapes
def frag_tape():
    """Read-fragmentation tape: [] = whole reads; values = max fragment size; EMPTY_READ = empty read."""
    small = st.sampled_from([1, 2, 3, 7, 8, 23, 24, 25, 100, 4095, 4096, 4097, EMPTY_READ])
    return st.one_of(
        st.just([]),
        st.builds(lambda v: {"cycle": v}, st.lists(st.one_of(small, st.integers(1, 70000)), min_size=1, max_size=8)),
        st.lists(st.one_of(small, st.integers(0, 70000)), min_size=1, max_size=40),
        st.just({"cycle": [1]}),
    )


def min_frag(tape):
    vals = tape.get("cycle") if isinstance(tape, dict) else tape
    vals = [v for v in (vals or []) if v and v != EMPTY_READ]
    return min(vals) if vals else None


def tame_frag(tape, total_bytes, budget=150000):
    """Keep the number of transport calls bounded: enlarge tiny fragments when the traffic is large (deterministic)."""
    m = min_frag(tape)
    if not isinstance(tape, dict) or m is None:
        return tape
    if EMPTY_READ in tape["cycle"]:
        # every empty read costs 1 ms of virtual time: keep their number far below read_timeout_s (10 s) -- otherwise the
        # generated transport is simply slower than the timeout and the library rightly raises AdbTimeoutError
        budget = min(budget, 1500)
    need = total_bytes // max(1, budget) + 1
    if m >= need:
        return tape
    return {"cycle": [v if (v == EMPTY_READ or v == 0) else max(v, need) for v in tape["cycle"]]}


def dev_tape(max_len=40):
    return st.lists(st.integers(0, 7), min_size=0, max_size=max_len)


def rid_list(n=8):
    """Device-chosen stream ids: mostly disjoint from the host's small local ids, sometimes equal to them."""
    far = st.one_of(st.sampled_from([2 ** 31, 2 ** 32 - 1, 2 ** 16, 77777]), st.integers(100, U32))
    near = st.integers(1, 6)
    return st.one_of(
        st.lists(far, min_size=0, max_size=n, unique=True),
        st.lists(far, min_size=0, max_size=n, unique=True),
        st.lists(far, min_size=0, max_size=n, unique=True),
        st.lists(st.one_of(far, near), min_size=0, max_size=n, unique=True),
    )


def maxdata():
    return st.one_of(
        st.sampled_from([4096, 16384, 65536, 65536 + 8, 131072, 262144, 1048576]),
        st.integers(4096, 1048576),
    )


def flavour():
    return st.sampled_from(["raises", "empty"])


def device_path(max_len=1024):
    seg = st.one_of(st.sampled_from(["sdcard", "data", "tmp", "a", "ü", "文件", "x y", "f.txt"]),
                    st.text(alphabet=st.characters(blacklist_categories=("Cs",), blacklist_characters="\x00"), min_size=1, max_size=12))
    return st.one_of(
        st.lists(seg, min_size=1, max_size=5).map(lambda p: "/" + "/".join(p)),
        st.integers(1, max_len).map(lambda n: ("/" + "p" * n)[:n]),
    )


# ------------------------------------------------------------------ whole sessions
def chunk_size_for(maxdata_):
    return min(65536, maxdata_ // 2) or 2048


def boundary_sizes(m):
    c = chunk_size_for(m)
    return sorted(set(x for x in [0, 1, 2, c - 1, c, c + 1, 2 * c, 2 * c + 1, m - 9, m - 8, m - 7, m - 1, m, m + 1, int(3.5 * c), 3 * c - 8] if x >= 0))


def exact_fill_sizes(m, spec_len):
    """File sizes for which a DATA record ends exactly at (or next to) the end of the maxdata-sized send buffer."""
    c = chunk_size_for(m)
    out = []
    for T in (m - 9, m - 8, m - 2, m - 1, m, m + 1, m + 2, m + 8):
        # buffer holds SEND record (8+spec_len) followed by k full DATA records (8+c each) and a last record of r bytes
        k = max(0, (T - 8 - spec_len - 9) // (c + 8))
        for kk in (k, k - 1):
            if kk < 0:
                continue
            r = T - 8 - spec_len - kk * (c + 8) - 8
            if 0 < r <= c:
                out.append(kk * c + r)
    return out or [m]


SHELL_CMDS = ["ls", "echo hi", "id", "getprop ro.x", "cat /proc/ü"]
DEV_PATHS = ["/sdcard/a.bin", "/data/local/tmp/b", "/f", "/ü/文件.txt", "/missing"]
DIR_PATHS = ["/sdcard", "/d", "/empty"]


def small_chunks():
    return st.lists(st.one_of(utf8ish().filter(len), st.binary(min_size=1, max_size=40)), min_size=0, max_size=4)


@st.composite
def wcap_tape(draw, total, p_none=0.0):
    """Per-call write capacities of the link (cyclic, 0 = unlimited); bounded so that a case needs at most ~3000 write calls."""
    if p_none and draw(st.floats(0, 1)) < p_none:
        return []
    w = draw(st.one_of(st.just([]), st.lists(st.one_of(st.sampled_from([1, 2, 23, 24, 25, 4096, 0]), st.integers(1, 100000)), min_size=1, max_size=6),
                       st.lists(st.sampled_from([262144, 131072, 65536, 100000, 0]), min_size=2, max_size=4)))
    if w and total > 8000:
        need = total // 3000 + 1
        w = [x if x == 0 else max(x, need) for x in w]
    if w and draw(st.sampled_from([False, False, False, True])):
        # now and then the link is busy: a call accepts nothing and reports 0 (the next call makes progress again)
        w = list(w)
        w.insert(draw(st.integers(0, len(w) - 1)), -1)
    return w


@st.composite
def session(draw, max_ops=5, ops_allowed=None, big=True, with_frag=False, with_wcap=False, fail_plans=False):
    m = draw(maxdata())
    sizes = boundary_sizes(m) if big else [0, 1, 2, 100, 2047, 2048, 2049, 5000]
    files = {}
    for p in DEV_PATHS[:4]:
        if draw(st.booleans()):
            files[p.encode()] = {"content": draw(content_spec(sizes=sizes)), "mode": draw(st.sampled_from([0o100644, 0o100755, 33206])),
                                 "mtime": draw(u32())}
    dirs = {}
    for p in DIR_PATHS[:2]:
        if draw(st.booleans()):
            dirs[p.encode()] = draw(st.lists(st.tuples(u32(), u32(), u32(), st.binary(min_size=1, max_size=40)), min_size=0, max_size=6))
    allowed = ops_allowed or ["shell", "exec_out", "streaming_shell", "root", "list", "stat", "pull", "push"]
    n = draw(st.integers(1, max_ops))
    ops = []
    services = {}
    paced = {}
    total = 2000
    for i in range(n):
        kind = draw(st.sampled_from(allowed))
        if kind in ("shell", "exec_out", "streaming_shell"):
            cmd = draw(st.sampled_from(SHELL_CMDS)) + (" #%d" % i)
            chunks = draw(small_chunks())
            if fail_plans and chunks and draw(st.sampled_from([False] * 5 + [True])):
                chunks = list(chunks)
                chunks.insert(draw(st.integers(0, len(chunks))), b"")      # a zero-length WRTE (unusual, but a WRITE like any other)
            services[(b"exec:" if kind == "exec_out" else b"shell:") + cmd.encode()] = chunks
            o = {"op": kind, "cmd": cmd, "decode": draw(st.booleans())}
            if fail_plans and kind == "streaming_shell" and chunks and draw(st.booleans()):
                o["take"] = draw(st.integers(1, len(chunks)))      # the caller abandons the generator after `take` items
            elif fail_plans and kind in ("shell", "exec_out") and draw(st.sampled_from([False, False, True])):
                # a slow command with a whole-command limit: output and the final CLSE arrive at drawn (virtual) times around the limit
                paced[(b"exec:" if kind == "exec_out" else b"shell:") + cmd.encode()] = draw(st.lists(st.sampled_from([0.0, 0.2, 0.6, 0.7, 1.3]), min_size=1, max_size=4))
                o["timeout_s"] = draw(st.sampled_from([1.0, 0.5, 2.0]))
            ops.append(o)
            total += sum(len(c) for c in chunks)
        elif kind == "root":
            services[b"root:"] = draw(small_chunks())
            ops.append({"op": "root"})
        elif kind == "list":
            ops.append({"op": "list", "path": draw(st.sampled_from(DIR_PATHS))})
        elif kind == "stat":
            ops.append({"op": "stat", "path": draw(st.sampled_from(DEV_PATHS))})
        elif kind == "pull":
            path = draw(st.sampled_from(DEV_PATHS))
            o = {"op": "pull", "path": path, "dest": "bytesio", "cb": draw(st.sampled_from([None, None, "rec", "raise"]))}
            if fail_plans and draw(st.sampled_from([False, False, True])):
                o["dest"] = "failing"                      # the local destination runs out of space after a few records
                o["fail_after"] = draw(st.integers(0, 3))
            ops.append(o)
            f = files.get(path.encode())
            total += f["content"]["n"] if f else 0
        else:
            ppath = draw(st.sampled_from(DEV_PATHS))
            pmode = draw(st.sampled_from([0o100770, 0o100644, 0, 0o177777]))
            spec = draw(content_spec(sizes=sizes))
            if draw(st.sampled_from([False, False, True])):
                # sizes that make a DATA record end exactly at (or within a few bytes of) the end of the send buffer
                spec = {"pat": spec["pat"], "n": draw(st.sampled_from(exact_fill_sizes(m, len(("%s,%d" % (ppath, pmode)).encode("utf8")))))}
            ops.append({"op": "push", "src": {"kind": "bytesio", "content": spec}, "path": ppath,
                        "mode": pmode, "mtime": draw(st.one_of(st.just(0), u32())),
                        "cb": draw(st.sampled_from([None, None, "rec", "raise"]))})
            total += spec["n"]
    dev = {
        "maxdata": m, "services": services, "fs": files, "dirs": dirs, "pace": paced, "allow_empty_wrte": bool(fail_plans),
        "rids": draw(rid_list()),
        "cuts": draw(st.one_of(st.none(), st.lists(st.one_of(st.sampled_from([1, 2, 3, 7, 8, 9, 19, 20, 21, 4096, 65536, 65544]), st.integers(1, 200000)), min_size=1, max_size=6))),
        "recv_sizes": draw(st.one_of(st.none(), st.lists(st.one_of(st.sampled_from([1, 2, 65535, 65536]), st.integers(1, 65536)), min_size=1, max_size=5))),
        "lag": draw(st.lists(st.integers(0, 3), max_size=4)),
        "eager_clse": draw(st.lists(st.booleans(), max_size=4)),
        "dup_clse": draw(st.booleans()),
        "zero_clse_reply": draw(st.booleans()),
        # protocol version announced in the device's CNXN: adbd since Android 9 says 0x01000001; the host announces 0x01000000, which stays in force
        "version": draw(st.sampled_from([0x01000000, 0x01000000, 0x01000001, 0x01000001, 1, 0xFFFFFFFF])),
    }
    # keep the number of device packets per case bounded (a few thousand) whatever the drawn sizes
    if dev["recv_sizes"]:
        need = total // 1500 + 1
        dev["recv_sizes"] = [min(65536, max(c, need)) for c in dev["recv_sizes"]]
    if dev["cuts"]:
        nrec = total // min(dev["recv_sizes"] or [65536]) + 20
        need = (total + 8 * nrec) // 2500 + 1
        dev["cuts"] = [max(c, need) for c in dev["cuts"]]
    if fail_plans:
        plan = draw(st.sampled_from(["none", "none", "push_fail", "push_fail", "recv_fail"]))
        if plan == "push_fail":
            dev["push_fail"] = {"at": draw(st.sampled_from(["send", "data", "data", "done"])), "k": draw(st.integers(0, 4)), "reason": draw(st.binary(max_size=40))}
        elif plan == "recv_fail":
            dev["recv_fail"] = {"after": draw(st.integers(0, 3)), "reason": draw(st.binary(max_size=40))}
    tr = {"flavour": draw(flavour())}
    if with_frag:
        tr["frag"] = tame_frag(draw(frag_tape()), total)
    if with_wcap:
        tr["wcap"] = draw(wcap_tape(total))
    return {
        "api": draw(st.sampled_from(["sync", "async"])),
        "device": dev, "dev_tape": draw(dev_tape(30)), "transport": tr, "connect": {}, "ops": ops,
    }
