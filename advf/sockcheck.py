"""Real-socket machinery: loopback peers, a socket server running the device simulator, and the checks built on them
(C18 transports + sessions, the TCP half of C15, the transport pair of C16)."""
import asyncio
import io
import select
import socket
import struct
import threading
import time

from hypothesis import strategies as st

from . import env, harness, runner, expect, wire, scenario as sc
from .harness import Violation
from .sim import DeviceSim, Tape, make_content

L = env.lib()
from adb_shell.transport.tcp_transport import TcpTransport            # noqa: E402
from adb_shell.transport.tcp_transport_async import TcpTransportAsync  # noqa: E402

WATCHDOG_S = 20.0


class RealClock(object):
    def time(self):
        return time.time()

    def monotonic(self):
        return time.monotonic()

    def perf_counter(self):
        return time.perf_counter()

    def advance(self, dt):
        pass

    def sleep(self, dt):
        time.sleep(dt)


def use_real_clock():
    env.CLOCK.target = RealClock()
    return env.CLOCK.target


class Inconclusive(Exception):
    pass


# ============================================================================= scripted raw peer
class ScriptedPeer(threading.Thread):
    """Accepts connections one after another on 127.0.0.1:<port>.  For each connection plays `script`:
       ("send", bytes, pause_s)   sleep pause_s, then send the bytes
       ("wait", name)             block until event `name` is set by the test
       ("recv", n)                receive exactly n bytes (recorded)
       ("close",)                 close the connection
    """

    def __init__(self, scripts, rcvbuf=None, sndbuf=None):
        threading.Thread.__init__(self, daemon=True)
        self.scripts = scripts
        self.lsock = socket.socket()
        self.lsock.setsockopt(socket.SOL_SOCKET, socket.SO_REUSEADDR, 1)
        if rcvbuf:
            self.lsock.setsockopt(socket.SOL_SOCKET, socket.SO_RCVBUF, rcvbuf)
        self.sndbuf = sndbuf
        self.lsock.bind(("127.0.0.1", 0))
        self.lsock.listen(4)
        self.port = self.lsock.getsockname()[1]
        self.events = {}
        self.received = []
        self.error = None
        self.stop_flag = False

    def event(self, name):
        return self.events.setdefault(name, threading.Event())

    def run(self):
        try:
            for script in self.scripts:
                self.lsock.settimeout(WATCHDOG_S)
                conn, _ = self.lsock.accept()
                conn.setsockopt(socket.IPPROTO_TCP, socket.TCP_NODELAY, 1)
                if self.sndbuf:
                    conn.setsockopt(socket.SOL_SOCKET, socket.SO_SNDBUF, self.sndbuf)
                got = bytearray()
                self.received.append(got)
                try:
                    for step in script:
                        if self.stop_flag:
                            break
                        if step[0] == "send":
                            if step[2]:
                                time.sleep(step[2])
                            conn.sendall(step[1])
                        elif step[0] == "wait":
                            if not self.event(step[1]).wait(WATCHDOG_S):
                                raise Inconclusive("peer waited too long for %s" % step[1])
                        elif step[0] == "recv":
                            conn.settimeout(WATCHDOG_S)
                            need = step[1]
                            while need > 0:
                                b = conn.recv(min(65536, need))
                                if not b:
                                    break
                                got += b
                                need -= len(b)
                        elif step[0] == "recv_slow":
                            conn.settimeout(WATCHDOG_S)
                            need, chunk, delay = step[1], step[2], step[3]
                            while need > 0:
                                b = conn.recv(min(chunk, need))
                                if not b:
                                    break
                                got += b
                                need -= len(b)
                                if delay:
                                    time.sleep(delay)
                        elif step[0] == "reset":
                            # abortive close: RST instead of FIN
                            conn.setsockopt(socket.SOL_SOCKET, socket.SO_LINGER, struct.pack("ii", 1, 0))
                            break
                        elif step[0] == "close":
                            break
                    self.event("script-done-%d" % (len(self.received) - 1)).set()
                    # keep the connection open until the client closes or we are told to stop
                    if not (script and script[-1][0] in ("close", "reset")):
                        conn.settimeout(0.05)
                        t0 = time.time()
                        while not self.stop_flag and time.time() - t0 < WATCHDOG_S:
                            try:
                                b = conn.recv(65536)
                                if not b:
                                    break
                                got += b
                            except socket.timeout:
                                continue
                            except OSError:
                                break
                finally:
                    conn.close()
        except Exception as e:  # noqa
            self.error = e
        finally:
            self.lsock.close()

    def stop(self):
        self.stop_flag = True
        for e in self.events.values():
            e.set()


# ============================================================================= socket server running the simulator
class SimServer(threading.Thread):
    def __init__(self, sim_factory, rcvbuf=None, recv_chunk=65536, recv_delay=0.0, send_frag=None, send_pause=0.0, max_conns=4, reset_after=None, fin_after=None):
        threading.Thread.__init__(self, daemon=True)
        self.sim_factory = sim_factory
        self.lsock = socket.socket()
        self.lsock.setsockopt(socket.SOL_SOCKET, socket.SO_REUSEADDR, 1)
        if rcvbuf:
            self.lsock.setsockopt(socket.SOL_SOCKET, socket.SO_RCVBUF, rcvbuf)
        self.lsock.bind(("127.0.0.1", 0))
        self.lsock.listen(4)
        self.port = self.lsock.getsockname()[1]
        self.recv_chunk = recv_chunk
        self.recv_delay = recv_delay
        self.send_frag = send_frag or []
        self.send_pause = send_pause
        self.sims = []
        self.stop_flag = False
        self.error = None
        self.max_conns = max_conns
        self.frag_i = 0
        self.reset_after = reset_after      # abort the FIRST connection (RST) once the device has seen this many host packets
        self.fin_after = fin_after          # half-close the FIRST connection (FIN: end-of-stream for the host) once the device has seen this many host packets
        self.resets = 0

    def run(self):
        try:
            for _ in range(self.max_conns):
                self.lsock.settimeout(0.1)
                conn = None
                while not self.stop_flag:
                    try:
                        conn, _ = self.lsock.accept()
                        break
                    except socket.timeout:
                        continue
                if conn is None:
                    break
                conn.setsockopt(socket.IPPROTO_TCP, socket.TCP_NODELAY, 1)
                sim = self.sim_factory()
                sim.new_connection()
                self.sims.append(sim)
                conn.settimeout(0.02)
                half_closed = set()
                try:
                    while not self.stop_flag:
                        try:
                            data = conn.recv(self.recv_chunk)
                        except socket.timeout:
                            data = None
                        except OSError:
                            break
                        if data == b"":
                            break
                        if data:
                            sim.feed(data)
                            if self.recv_delay:
                                time.sleep(self.recv_delay)
                        if self.reset_after is not None and len(self.sims) == 1 and len(sim.host_log) >= self.reset_after:
                            conn.setsockopt(socket.SOL_SOCKET, socket.SO_LINGER, struct.pack("ii", 1, 0))
                            self.resets += 1
                            break
                        if self.fin_after is not None and len(self.sims) == 1 and len(sim.host_log) >= self.fin_after:
                            if id(conn) not in half_closed:
                                try:
                                    conn.shutdown(socket.SHUT_WR)
                                except OSError:
                                    pass
                                self.fins = getattr(self, "fins", 0) + 1
                                half_closed.add(id(conn))
                            continue        # keep reading (and discarding) what the host still writes; nothing is sent any more
                        while True:
                            nxt = sim.next_packet()
                            if nxt is None:
                                break
                            pkt, s = nxt
                            raw = wire.encode(pkt.cmd, pkt.arg0, pkt.arg1, pkt.data)
                            try:
                                self._send(conn, raw)
                            except OSError:
                                raise ConnectionAbortedError("client went away")
                            sim.delivered(pkt, s)
                except ConnectionAbortedError:
                    pass
                finally:
                    conn.close()
        except Exception as e:  # noqa
            self.error = e
        finally:
            self.lsock.close()

    def _send(self, conn, raw):
        conn.settimeout(WATCHDOG_S)
        try:
            if not self.send_frag:
                conn.sendall(raw)
                return
            pos = 0
            while pos < len(raw):
                n = self.send_frag[self.frag_i % len(self.send_frag)]
                self.frag_i += 1
                n = max(1, n)
                conn.sendall(raw[pos:pos + n])
                pos += n
                if self.send_pause:
                    time.sleep(self.send_pause)
        finally:
            conn.settimeout(0.02)

    def stop(self):
        self.stop_flag = True


class SmallBufTcp(TcpTransport):
    SNDBUF = None

    def connect(self, transport_timeout_s):
        TcpTransport.connect(self, transport_timeout_s)
        if self.SNDBUF:
            self._connection.setsockopt(socket.SOL_SOCKET, socket.SO_SNDBUF, self.SNDBUF)


class SmallBufTcpAsync(TcpTransportAsync):
    SNDBUF = None

    async def connect(self, transport_timeout_s):
        await TcpTransportAsync.connect(self, transport_timeout_s)
        if self.SNDBUF:
            self._writer.get_extra_info("socket").setsockopt(socket.SOL_SOCKET, socket.SO_SNDBUF, self.SNDBUF)


# ============================================================================= C18 (a): transport contract against a scripted peer
@st.composite
def peer_cases(draw):
    frags = draw(st.lists(st.tuples(st.one_of(st.binary(min_size=1, max_size=64), st.integers(1, 70000).map(lambda n: bytes((i * 7 + n) % 251 for i in range(n)))),
                                    st.sampled_from([0, 0, 0, 0.002, 0.01, 0.04])), min_size=1, max_size=10))
    reqs = draw(st.lists(st.one_of(st.sampled_from([1, 2, 24, 4096, 65536, 1048576]), st.integers(1, 100000)), min_size=1, max_size=6))
    return {"api": draw(st.sampled_from(["sync", "async"])), "frags": frags, "reqs": reqs,
            "connect_timeout": draw(st.sampled_from([None, 1.0, 5.0])), "read_timeout": draw(st.sampled_from([2.0, 5.0, None])),
            "idle_timeout": draw(st.sampled_from([0.05, 0.1, 0.2, 0.3])), "tail": draw(st.binary(min_size=1, max_size=2000)),
            "rcvbuf": draw(st.sampled_from([None, None, 4096, 65536])), "reconnect": draw(st.booleans()),
            "big_write": draw(st.sampled_from([0, 0, 100000, 1048576])), "write_timeout": draw(st.sampled_from([None, 2.0, 5.0])),
            "peer_rcvbuf": draw(st.sampled_from([None, 4096])), "sndbuf": draw(st.sampled_from([None, 4096])),
            "poll": draw(st.booleans()),                 # read the tail with timeout 0 (a poll) once it has certainly arrived
            "unread_inbound": draw(st.booleans()),       # the peer sends a few bytes that stay unread while the client writes
            "peer_reset": draw(st.sampled_from([False, False, True])),      # the peer finally aborts the connection (RST); close()/connect() must still work
            "peer_stall": draw(st.sampled_from([0, 0, 0.8]))}               # the peer stops reading for this long in the middle of the big write (longer than a 0.3 s write timeout)


def _drive_sync(case, port, peer, rec):
    tr = SmallBufTcp("127.0.0.1", port)
    tr.SNDBUF = case.get("sndbuf")
    tr.connect(case["connect_timeout"])
    if case.get("rcvbuf"):
        tr._connection.setsockopt(socket.SOL_SOCKET, socket.SO_RCVBUF, case["rcvbuf"])
    total = sum(len(f) for f, _ in case["frags"])
    got = bytearray()
    i = 0
    t_end = time.time() + WATCHDOG_S
    while len(got) < total:
        if time.time() > t_end:
            raise Inconclusive("watchdog while reading")
        n = case["reqs"][i % len(case["reqs"])]
        i += 1
        b = tr.bulk_read(n, case["read_timeout"])
        rec["reads"].append((n, len(b)))
        if not b:
            rec["eof_early"] = True
            break
        got += b
    rec["stream"] = bytes(got)
    # nothing pending now: a read must time out, not before (about) the timeout
    t0 = time.time()
    try:
        b = tr.bulk_read(100, case["idle_timeout"])
        rec["idle"] = ("data", len(b), time.time() - t0)
    except L.exceptions.TcpTimeoutException:
        rec["idle"] = ("timeout", 0, time.time() - t0)
    except Exception as e:  # noqa
        rec["idle"] = ("other:" + type(e).__name__, 0, time.time() - t0)
    peer.event("tail").set()
    tail = bytearray()
    if case.get("poll"):
        time.sleep(0.15)          # the tail (<= 2000 bytes over loopback) has certainly arrived by now
    while len(tail) < len(case["tail"]):
        if time.time() > t_end:
            raise Inconclusive("watchdog while reading the tail")
        b = tr.bulk_read(len(case["tail"]) - len(tail), 0 if case.get("poll") else case["read_timeout"])
        if not b:
            break
        tail += b
    rec["tail"] = bytes(tail)
    if case.get("unread_inbound"):
        peer.event("inbound").set()
        time.sleep(0.05)
    sent = tr.bulk_write(b"client-hello", case["read_timeout"])
    rec["write_ret"] = sent
    if case.get("big_write"):
        data = big_payload(case["big_write"])
        view = memoryview(data)
        calls = 0
        while len(view):
            if time.time() > t_end:
                raise Inconclusive("watchdog while writing")
            t_call = time.monotonic()
            try:
                try:
                    n = tr.bulk_write(bytes(view), 0.3 if case.get("peer_stall") else case.get("write_timeout"))
                finally:
                    rec["max_write_call_s"] = max(rec.get("max_write_call_s", 0.0), time.monotonic() - t_call)
            except L.exceptions.TcpTimeoutException:
                if not case.get("peer_stall"):
                    raise
                rec["write_timed_out"] = True        # legitimate: the peer stalled for longer than the write timeout
                break
            calls += 1
            if not isinstance(n, int) or n <= 0 or n > len(view):
                rec["bad_write_count"] = (n, len(view))
                break
            view = view[n:]
        rec["big_write_calls"] = calls
    if case.get("unread_inbound"):
        # closing a TCP socket that still holds unread inbound data makes the kernel send RST and discard what is in flight: that is TCP, not the
        # transport; so the bytes are consumed before close() -- they only had to be pending *while* the client was writing
        pending = bytearray()
        while len(pending) < len(b"unread-by-client"):
            if time.time() > t_end:
                raise Inconclusive("watchdog while draining")
            b = tr.bulk_read(len(b"unread-by-client") - len(pending), case["read_timeout"])
            if not b:
                break
            pending += b
        rec["inbound"] = bytes(pending)
    if case.get("peer_reset"):
        peer.event("reset").set()
        time.sleep(0.1)
        try:
            rec["after_reset"] = ("data", len(tr.bulk_read(10, 0.2)))
        except Exception as e:  # noqa  (any error or EOF is acceptable here; what matters is that close() and connect() still work)
            rec["after_reset"] = ("exc", type(e).__name__)
    tr.close()
    tr.close()
    rec["closed_twice"] = True
    if case["reconnect"] or case.get("peer_reset"):
        tr.connect(case["connect_timeout"])
        b = tr.bulk_read(5, 10.0)          # generous: the peer may still be draining the previous connection's backlog before it accepts this one
        rec["reconnect"] = bytes(b)
        tr.close()


async def _drive_async(case, port, peer, rec):
    tr = SmallBufTcpAsync("127.0.0.1", port)
    tr.SNDBUF = case.get("sndbuf")
    await tr.connect(case["connect_timeout"])
    total = sum(len(f) for f, _ in case["frags"])
    got = bytearray()
    i = 0
    t_end = time.time() + WATCHDOG_S
    while len(got) < total:
        if time.time() > t_end:
            raise Inconclusive("watchdog while reading")
        n = case["reqs"][i % len(case["reqs"])]
        i += 1
        b = await tr.bulk_read(n, case["read_timeout"])
        rec["reads"].append((n, len(b)))
        if not b:
            rec["eof_early"] = True
            break
        got += b
    rec["stream"] = bytes(got)
    t0 = time.time()
    try:
        b = await tr.bulk_read(100, case["idle_timeout"])
        rec["idle"] = ("data", len(b), time.time() - t0)
    except L.exceptions.TcpTimeoutException:
        rec["idle"] = ("timeout", 0, time.time() - t0)
    except Exception as e:  # noqa
        rec["idle"] = ("other:" + type(e).__name__, 0, time.time() - t0)
    peer.event("tail").set()
    tail = bytearray()
    if case.get("poll"):
        await asyncio.sleep(0.15)
    while len(tail) < len(case["tail"]):
        if time.time() > t_end:
            raise Inconclusive("watchdog while reading the tail")
        b = await tr.bulk_read(len(case["tail"]) - len(tail), 0 if case.get("poll") else case["read_timeout"])
        if not b:
            break
        tail += b
    rec["tail"] = bytes(tail)
    if case.get("unread_inbound"):
        peer.event("inbound").set()
        await asyncio.sleep(0.05)
    rec["write_ret"] = await tr.bulk_write(b"client-hello", case["read_timeout"])
    if case.get("big_write"):
        data = big_payload(case["big_write"])
        view = memoryview(data)
        calls = 0
        while len(view):
            if time.time() > t_end:
                raise Inconclusive("watchdog while writing")
            t_call = time.monotonic()
            try:
                try:
                    n = await tr.bulk_write(bytes(view), 0.3 if case.get("peer_stall") else case.get("write_timeout"))
                finally:
                    rec["max_write_call_s"] = max(rec.get("max_write_call_s", 0.0), time.monotonic() - t_call)
            except L.exceptions.TcpTimeoutException:
                if not case.get("peer_stall"):
                    raise
                rec["write_timed_out"] = True
                break
            calls += 1
            if not isinstance(n, int) or n <= 0 or n > len(view):
                rec["bad_write_count"] = (n, len(view))
                break
            view = view[n:]
        rec["big_write_calls"] = calls
    if case.get("unread_inbound"):
        pending = bytearray()
        while len(pending) < len(b"unread-by-client"):
            if time.time() > t_end:
                raise Inconclusive("watchdog while draining")
            b = await tr.bulk_read(len(b"unread-by-client") - len(pending), case["read_timeout"])
            if not b:
                break
            pending += b
        rec["inbound"] = bytes(pending)
    if case.get("peer_reset"):
        peer.event("reset").set()
        await asyncio.sleep(0.1)
        try:
            rec["after_reset"] = ("data", len(await tr.bulk_read(10, 0.2)))
        except Exception as e:  # noqa
            rec["after_reset"] = ("exc", type(e).__name__)
    await tr.close()
    await tr.close()
    rec["closed_twice"] = True
    if case["reconnect"] or case.get("peer_reset"):
        await tr.connect(case["connect_timeout"])
        b = await tr.bulk_read(5, 10.0)
        rec["reconnect"] = bytes(b)
        await tr.close()


def big_payload(n):
    return (bytes(range(256)) * (n // 256 + 1))[:n]


def run_transport(case, api):
    script = [("send", f, p) for f, p in case["frags"]] + [("wait", "tail"), ("send", case["tail"], 0), ("recv", len(b"client-hello"))]
    if case.get("unread_inbound"):
        script.insert(len(script) - 1, ("wait", "inbound"))
        script.insert(len(script) - 1, ("send", b"unread-by-client", 0))
    if case.get("big_write"):
        if case.get("peer_stall"):
            script.append(("recv_slow", min(20000, case["big_write"]), 4096, 0.004))
            script.append(("send", b"", case["peer_stall"]))           # (a pause: sleep, then send nothing)
            script.append(("recv_slow", case["big_write"] - min(20000, case["big_write"]), 4096, 0.004))
        else:
            script.append(("recv_slow", case["big_write"], 4096, 0.004))
    if case.get("peer_reset"):
        script.append(("wait", "reset"))
        script.append(("reset",))
    scripts = [script] + ([[("send", b"again", 0)]] if (case["reconnect"] or case.get("peer_reset")) else [])
    peer = ScriptedPeer(scripts, rcvbuf=case.get("peer_rcvbuf"))
    peer.start()
    rec = {"reads": [], "api": api}
    try:
        if api == "sync":
            _drive_sync(case, peer.port, peer, rec)
        else:
            asyncio.run(asyncio.wait_for(_drive_async(case, peer.port, peer, rec), WATCHDOG_S))
        rec["exc"] = None
    except (Inconclusive, asyncio.TimeoutError) as e:
        rec["inconclusive"] = str(e) or "wall-clock watchdog"
    except Exception as e:  # noqa
        rec["exc"] = e
    finally:
        if rec.get("exc", 1) is None:
            # let the peer finish its script (it may still be about to receive what we wrote) before stopping it
            # (the client has returned from close(): whatever it reported as written is in the kernel by now; 5 s is ample for the peer to drain it)
            for k in range(len(scripts)):
                if not peer.event("script-done-%d" % k).wait(5.0):
                    rec["peer_unfinished"] = True
        peer.stop()
        peer.join(timeout=3)
    rec["peer_received"] = bytes(peer.received[0]) if peer.received else b""
    return rec


def judge_transport(case, rec):
    if rec.get("inconclusive"):
        return "inconclusive"
    if rec.get("exc") is not None:
        e = rec["exc"]
        return Violation("transport-raised", "%s: %s" % (type(e).__name__, e))
    for n, m in rec["reads"]:
        if m > n:
            return Violation("read-exceeds-request", "bulk_read(%d) returned %d bytes" % (n, m))
    want = b"".join(f for f, _ in case["frags"])
    if rec["stream"] != want:
        return Violation("bytes-lost-duplicated-or-reordered", "peer sent %d bytes, reads delivered %d; first difference at %s" % (len(want), len(rec["stream"]), _first_diff(want, rec["stream"])))
    kind, n, dt = rec["idle"]
    if kind != "timeout":
        return Violation("idle-read-did-not-time-out", "read with nothing pending: %s (%d bytes) after %.3f s" % (kind, n, dt))
    if dt < 0.8 * case["idle_timeout"]:
        return Violation("timeout-too-early", "TcpTimeoutException after %.3f s with timeout %.3f" % (dt, case["idle_timeout"]))
    if rec["tail"] != case["tail"]:
        return Violation("data-lost-after-timeout", "peer sent %r.. after the timeout, transport delivered %r.." % (case["tail"][:20], rec["tail"][:20]))
    if not rec["peer_received"].startswith(b"client-hello"):
        return Violation("write-not-delivered", "peer received %r" % rec["peer_received"][:40])
    if case.get("unread_inbound") and rec.get("inbound") != b"unread-by-client":
        return Violation("inbound-bytes-lost-during-write", "the peer sent 16 bytes while the client was writing; the client later read %r" % (rec.get("inbound"),))
    if case.get("big_write"):
        if rec.get("bad_write_count"):
            return Violation("write-count-out-of-range", "bulk_write returned %r for %d offered bytes" % rec["bad_write_count"])
        want_w = b"client-hello" + big_payload(case["big_write"])
        if case.get("peer_stall", 0) >= 3.0 and case.get("connect_timeout") and rec.get("max_write_call_s", 0.0) > 2.4:
            # (a socket connected with a timeout is non-blocking; connected with None it is a blocking socket and send() may legitimately wait)
            return Violation("write-call-ignores-timeout", "the peer stopped reading for %.1f s; one bulk_write(..., 0.3) call lasted %.2f s instead of returning a count or raising TcpTimeoutException after about 0.3 s"
                             % (case["peer_stall"], rec["max_write_call_s"]))
        if rec.get("write_timed_out"):
            # the write gave up (legitimately); whatever did reach the peer must be a clean prefix: nothing duplicated, nothing out of place
            if rec["peer_received"] != want_w[:len(rec["peer_received"])]:
                return Violation("bytes-duplicated-or-reordered-after-write-timeout", "after a write timeout the peer holds %d bytes that are not a prefix of what was written (first difference at %s)"
                                 % (len(rec["peer_received"]), _first_diff(want_w, rec["peer_received"])))
        elif rec["peer_received"] != want_w:
            return Violation("written-bytes-not-delivered", "every bulk_write call returned normally (counts summing to %d bytes) and close() returned, but the peer received %d bytes; first difference at %s"
                             % (len(want_w), len(rec["peer_received"]), _first_diff(want_w, rec["peer_received"])))
    if (case["reconnect"] or case.get("peer_reset")) and rec.get("reconnect") != b"again":
        return Violation("reconnect-failed", "after close()+connect() read %r" % rec.get("reconnect"))
    return None


def check_transport(case):
    use_real_clock()
    rec = run_transport(case, case["api"])
    v = judge_transport(case, rec)
    if isinstance(v, Violation) and v.rule == "write-call-ignores-timeout":
        # an upper wall-clock bound: confirm it on a second run before reporting
        rec2 = run_transport(case, case["api"])
        v2 = judge_transport(case, rec2)
        if not (isinstance(v2, Violation) and v2.rule == v.rule):
            rec, v = rec2, v2
    info = {"classes": [case["api"], "transport"], "nontrivial": len(rec.get("reads", [])) >= 2,
            "sample": {"api": case["api"], "frag_sizes": [len(f) for f, _ in case["frags"]], "pauses": [p for _, p in case["frags"]], "reqs": case["reqs"], "reads": rec.get("reads", [])[:8],
                       "idle": rec.get("idle")}}
    if v == "inconclusive":
        info["inconclusive"] = True
        return None, info
    return v, info


def check_pair(case):
    """C16: the same peer script through both transports."""
    use_real_clock()
    rs = run_transport(case, "sync")
    ra = run_transport(case, "async")
    info = {"classes": ["tcp-pair"], "nontrivial": True, "sample": {"frag_sizes": [len(f) for f, _ in case["frags"]], "reqs": case["reqs"]}}
    if rs.get("inconclusive") or ra.get("inconclusive"):
        info["inconclusive"] = True
        return None, info
    for key in ("stream", "tail", "reconnect", "peer_received"):
        if key == "peer_received" and (rs.get("write_timed_out") or ra.get("write_timed_out")):
            continue      # the peer stalled for longer than the write timeout: how much had been accepted by then legitimately differs (each side is judged by judge_transport)
        if rs.get(key) != ra.get(key):
            return Violation("tcp-transports-differ:" + key, "sync %r.. / async %r.." % (str(rs.get(key))[:60], str(ra.get(key))[:60])), info
    if (rs.get("exc") is None) != (ra.get("exc") is None) or (rs.get("exc") is not None and type(rs["exc"]) is not type(ra["exc"])):
        return Violation("tcp-transports-differ:exception", "sync %r / async %r" % (rs.get("exc"), ra.get("exc"))), info
    if rs.get("idle", ("",))[0] != ra.get("idle", ("",))[0]:
        return Violation("tcp-transports-differ:idle-read", "sync %r / async %r" % (rs.get("idle"), ra.get("idle"))), info
    for r in (rs, ra):
        for n, m in r["reads"]:
            if m > n:
                return Violation("read-exceeds-request", "%s bulk_read(%d) returned %d" % (r["api"], n, m)), info
        v = judge_transport(case, r)
        if v is not None and v != "inconclusive":
            return Violation("tcp-transport-contract:" + v.rule, "%s: %s" % (r["api"], v.detail)), info
    return None, info


# ============================================================================= sessions over loopback (C18 b, C15 b)
def run_session(scn, api, server_kw=None, sndbuf=None, transport_timeout=None):
    """Run scn (connect + ops) through AdbDevice(TcpTransport) against a SimServer."""
    use_real_clock()
    dcfg = dict(scn.get("device") or {})
    dcfg["_verify"] = runner.fake_verify
    sims = []

    def factory():
        s = DeviceSim(dcfg, Tape(scn.get("dev_tape") or ()), env.CLOCK.target)
        sims.append(s)
        return s
    srv = SimServer(factory, **(server_kw or {}))
    srv.start()
    out = runner.Outcome()
    out.sims = sims
    out.clock = env.CLOCK.target
    out.api = api
    results = []
    try:
        if api == "sync":
            tr = SmallBufTcp("127.0.0.1", srv.port)
            tr.SNDBUF = sndbuf
            dev = L.adb_device.AdbDevice(tr, default_transport_timeout_s=transport_timeout)
            out.device = dev
            ops = runner.all_ops(scn)
            for i, op in enumerate(ops):
                try:
                    results.append({"ok": runner.run_op_sync(dev, op, i, out)})
                except Exception as e:  # noqa
                    results.append(runner.exc_result(e))
            try:
                dev.close()
            except Exception as e:  # noqa
                out.extra["final_close_exc"] = e
        else:
            async def main():
                tr = SmallBufTcpAsync("127.0.0.1", srv.port)
                tr.SNDBUF = sndbuf
                dev = L.adb_device_async.AdbDeviceAsync(tr, default_transport_timeout_s=transport_timeout)
                out.device = dev
                ops = runner.all_ops(scn)
                for i, op in enumerate(ops):
                    try:
                        results.append({"ok": await asyncio.wait_for(runner.run_op_async(dev, op, i, out), WATCHDOG_S * 3)})
                    except asyncio.TimeoutError:
                        results.append({"exc": "Inconclusive", "msg": "wall-clock watchdog"})
                    except Exception as e:  # noqa
                        results.append(runner.exc_result(e))
                try:
                    await dev.close()
                except Exception as e:  # noqa
                    out.extra["final_close_exc"] = e
            asyncio.run(main())
    finally:
        srv.stop()
        srv.join(timeout=3)
        if out.tmpdir:
            import shutil
            shutil.rmtree(out.tmpdir, ignore_errors=True)
    out.results = results
    out.ops = runner.all_ops(scn)
    out.server_error = srv.error
    return out


@st.composite
def session_cases(draw):
    case = draw(sc.session(max_ops=4, big=False))
    case["device"]["lag"] = []
    n = draw(st.sampled_from([0, 1, 5000, 70000, 300000]))
    case["ops"].append({"op": "push", "src": {"kind": "bytesio", "content": {"pat": draw(st.binary(min_size=1, max_size=5)), "n": n}}, "path": "/sock", "mtime": 5})
    case["server"] = {"send_frag": draw(st.one_of(st.just([]), st.lists(st.sampled_from([1, 7, 24, 100, 4096, 65536]), min_size=1, max_size=4))),
                      "send_pause": draw(st.sampled_from([0.0, 0.0, 0.0005]))}
    if case["server"]["send_frag"] and min(case["server"]["send_frag"]) < 24:
        case["server"]["send_pause"] = 0.0
    case["transport_timeout"] = draw(st.sampled_from([None, 2.0, 5.0]))
    return case


def check_session(case):
    out = run_session(case, case["api"], server_kw=case.get("server"), transport_timeout=case.get("transport_timeout"))
    info = {"classes": [case["api"], "session"], "nontrivial": len(case["ops"]) >= 2,
            "sample": {"ops": [o["op"] for o in case["ops"]], "server": case.get("server"), "api": case["api"], "transport_timeout": case.get("transport_timeout")}}
    if out.server_error is not None:
        raise env.HarnessError("socket server failed: %r" % (out.server_error,))
    for op, res in zip(out.ops, out.results):
        if res.get("exc") == "Inconclusive":
            info["inconclusive"] = True
            return None, info
        v = expect.compare(case, op, res, case["device"])
        if v is not None:
            return Violation("session-over-tcp-differs-from-model:" + v.rule, v.detail), info
    for sim in out.sims:
        if sim.framing_error is not None:
            return Violation("peer-stream-corrupt", str(sim.framing_error)), info
    pushes = [p for s in out.sims for p in s.pushes]
    want = [o for o in case["ops"] if o["op"] == "push"]
    for op, rec in zip(want, pushes):
        v = expect.check_push_record(op, rec)
        if v is not None:
            return v, info
    return None, info


# -- C15 (b): large pushes through small socket buffers and a slow reader
@st.composite
def push_cases(draw):
    n = draw(st.sampled_from([65536, 200000, 1048576, 1048577, 3 * 1048576]))
    return {"api": draw(st.sampled_from(["sync", "async"])), "device": {"maxdata": 1048576}, "connect": {},
            "ops": [{"op": "push", "src": {"kind": "bytesio", "content": {"pat": draw(st.binary(min_size=1, max_size=7)), "n": n}}, "path": "/big", "mtime": 5}],
            "server": {"rcvbuf": 4096, "recv_chunk": draw(st.sampled_from([4096, 16384])), "recv_delay": draw(st.sampled_from([0.0002, 0.0005]))},
            "sndbuf": 4096, "transport_timeout": draw(st.sampled_from([2.0, 5.0]))}


def check_push_case(case):
    out = run_session(case, case["api"], server_kw=case.get("server"), sndbuf=case.get("sndbuf"), transport_timeout=case.get("transport_timeout"))
    op = case["ops"][0]
    res = out.results[-1]
    info = {"classes": [case["api"], "socket-push"], "nontrivial": True,
            "sample": {"api": case["api"], "bytes": op["src"]["content"]["n"], "server": case["server"], "transport_timeout": case["transport_timeout"], "result": res.get("exc", "ok")}}
    if out.server_error is not None:
        raise env.HarnessError("socket server failed: %r" % (out.server_error,))
    if res.get("exc") == "Inconclusive":
        info["inconclusive"] = True
        return None, info
    sim = out.sims[-1] if out.sims else None
    if "exc" in res:
        # the statement's last sentence: a large push over TCP with a transport timeout and small socket buffers arrives intact.
        # The peer here is healthy (it reads everything, slowly but far within the timeouts), so a raise means bytes went missing.
        got = sim.pushes[0]["content"] if sim is not None and sim.pushes else (sim.streams[-1].host_writes if sim is not None and sim.streams else None)
        return Violation("large-push-did-not-arrive-intact", "push of %d bytes raised %s: %s; peer decoding state: framing_error=%s, %d bytes received"
                         % (op["src"]["content"]["n"], res["exc"], res["msg"], sim.framing_error if sim else None, sim.bytes_in if sim else -1)), info
    if sim is None or sim.framing_error is not None:
        return Violation("message-truncated", "push returned normally but the peer could not decode the byte stream: %s" % (sim.framing_error if sim else None)), info
    if not sim.pushes:
        return Violation("message-truncated", "push returned normally but the peer never saw a complete SEND..DONE"), info
    v = expect.check_push_record(op, sim.pushes[0])
    if v is not None:
        return v, info
    return None, info


def _first_diff(a, b):
    n = min(len(a), len(b))
    for i in range(n):
        if a[i] != b[i]:
            return i
    return n


def push_part(check_id, tier, seed):
    return harness.hypothesis_part("socket", push_cases(), check_push_case, 32 if tier == "quick" else 480, seed)


# -- C12 over real TCP: the peer aborts the connection (RST) in the middle of a session; close(), connect() and a replay must work
@st.composite
def reset_cases(draw):
    case = draw(sc.session(max_ops=3, big=False))
    case["device"]["lag"] = []
    case["reset_after"] = draw(st.integers(1, 12))
    case["transport_timeout"] = draw(st.sampled_from([1.0, 3.0]))
    for o in case["ops"]:
        o["read_timeout_s"] = 1.0
    return case


def check_reset_case(case):
    use_real_clock()
    ops = [dict(o) for o in case["ops"]]
    recovery = [{"op": "close"}, {"op": "connect", "read_timeout_s": 2.0}] + [dict(o) for o in ops]
    scn = dict(case, connect={"read_timeout_s": 2.0}, ops=ops + recovery)
    out = run_session(scn, case["api"], server_kw={"reset_after": case["reset_after"]}, transport_timeout=case["transport_timeout"])
    info = {"classes": [case["api"], "tcp-reset"], "nontrivial": True,
            "sample": {"ops": [o["op"] for o in ops], "reset_after_host_packets": case["reset_after"], "api": case["api"], "results": [r.get("exc", "ok") for r in out.results]}}
    if out.server_error is not None:
        raise env.HarnessError("socket server failed: %r" % (out.server_error,))
    if any(r.get("exc") == "Inconclusive" for r in out.results):
        info["inconclusive"] = True
        return None, info
    n1 = 1 + len(ops)
    for op, res in zip(out.ops[:n1], out.results[:n1]):
        if "exc" in res:
            continue
        v = expect.compare(scn, op, res, case["device"])
        if v is not None:
            return Violation("wrong-result-under-connection-reset", v.detail), info
    for op, res in zip(out.ops[n1:], out.results[n1:]):
        v = expect.compare(scn, op, res, case["device"])
        if v is not None:
            return Violation("recovery-failed-after-connection-reset", "after the peer reset the connection (at host packet %d), recovery op %r misbehaved: %s" % (case["reset_after"], op["op"], v.detail)), info
    return None, info


def fixed_transport_cases():
    """A small deterministic set of feature combinations that every run exercises (both transports)."""
    out = []
    base = {"frags": [(b"hello", 0), (bytes(range(200)) * 40, 0.01), (b"x" * 3000, 0)], "reqs": [1, 24, 100000], "connect_timeout": 1.0, "read_timeout": 2.0,
            "idle_timeout": 0.1, "tail": b"T" * 500, "rcvbuf": None, "reconnect": False, "big_write": 0, "write_timeout": 5.0, "peer_rcvbuf": None, "sndbuf": None,
            "poll": False, "unread_inbound": False, "peer_reset": False, "peer_stall": 0}
    variants = [
        {},
        {"poll": True},
        {"read_timeout": None, "connect_timeout": 1.0},
        {"read_timeout": None, "connect_timeout": None},
        {"big_write": 100000, "sndbuf": 4096, "peer_rcvbuf": 4096},
        {"big_write": 1048576, "sndbuf": 4096, "peer_rcvbuf": 4096, "unread_inbound": True},
        {"big_write": 100000, "sndbuf": 4096, "peer_rcvbuf": 4096, "unread_inbound": True, "write_timeout": 2.0},
        {"big_write": 100000, "sndbuf": 4096, "peer_rcvbuf": 4096, "peer_stall": 0.8},
        {"big_write": 1048576, "sndbuf": 4096, "peer_rcvbuf": 4096, "peer_stall": 3.0},
        {"peer_reset": True},
        {"peer_reset": True, "big_write": 100000},
        {"reconnect": True, "rcvbuf": 4096},
    ]
    for api in ("sync", "async"):
        for v in variants:
            out.append(dict(base, api=api, **v))
    return out


# ============================================================================= convenience constructors (AdbDeviceTcp / AdbDeviceTcpAsync)
def ctor_cases():
    out = []
    for api in ("sync", "async"):
        for default in (0.3, 0.6):
            for banner in (None, "ctor-banner"):
                for mute in (True, False):
                    out.append({"api": api, "default": default, "banner": banner, "mute": mute})
    return out


def check_ctor_case(case):
    v, info = _check_ctor_case(case)
    if v is not None and v.rule == "ctor-default-timeout-not-in-force":
        # an upper wall-clock bound: confirm on a second run before reporting (a loaded machine may delay one run)
        v2, info = _check_ctor_case(case)
        if v2 is None:
            info["classes"].append("late-once")
            return None, info
    return v, info


def _check_ctor_case(case):
    """AdbDeviceTcp(host, port, default_transport_timeout_s, banner) / AdbDeviceTcpAsync(...): the options given to the constructor are in force on the
    socket -- a device that never answers makes connect() time out after about the default transport timeout (as the in-memory session does on the
    virtual clock), the banner is the one announced, and a healthy session works."""
    import socket as _socket
    use_real_clock()
    dcfg = {"mute": case["mute"], "services": {b"shell:echo hi": [b"hi\n"]}, "_verify": runner.fake_verify}
    sims = []

    def factory():
        s = DeviceSim(dcfg, Tape(()), env.CLOCK.target)
        sims.append(s)
        return s
    srv = SimServer(factory)
    srv.start()
    info = {"classes": [case["api"], "ctor", "mute" if case["mute"] else "healthy"], "nontrivial": True,
            "sample": dict(case)}
    rec = {}
    try:
        if case["api"] == "sync":
            dev = L.adb_device.AdbDeviceTcp("127.0.0.1", srv.port, default_transport_timeout_s=case["default"], banner=case["banner"])
            t0 = time.monotonic()
            try:
                rec["connect"] = dev.connect(read_timeout_s=8.0)
            except Exception as e:  # noqa
                rec["connect_exc"] = e
            rec["elapsed"] = time.monotonic() - t0
            if not case["mute"] and "connect_exc" not in rec:
                try:
                    rec["shell"] = dev.shell("echo hi")
                except Exception as e:  # noqa
                    rec["shell_exc"] = e
            try:
                dev.close()
            except Exception:  # noqa
                pass
        else:
            async def main():
                dev = L.adb_device_async.AdbDeviceTcpAsync("127.0.0.1", srv.port, default_transport_timeout_s=case["default"], banner=case["banner"])
                t0 = time.monotonic()
                try:
                    rec["connect"] = await asyncio.wait_for(dev.connect(read_timeout_s=8.0), WATCHDOG_S)
                except asyncio.TimeoutError:
                    rec["watchdog"] = True
                except Exception as e:  # noqa
                    rec["connect_exc"] = e
                rec["elapsed"] = time.monotonic() - t0
                if not case["mute"] and "connect_exc" not in rec and "watchdog" not in rec:
                    try:
                        rec["shell"] = await asyncio.wait_for(dev.shell("echo hi"), WATCHDOG_S)
                    except Exception as e:  # noqa
                        rec["shell_exc"] = e
                try:
                    await dev.close()
                except Exception:  # noqa
                    pass
            asyncio.run(main())
    finally:
        srv.stop()
        srv.join(timeout=3)
    if rec.get("watchdog"):
        return Violation("operation-hung", "connect() through %s did not finish within %d s" % ("AdbDeviceTcpAsync", WATCHDOG_S)), info
    want_banner = (case["banner"] or _socket.gethostname()).encode("utf-8")
    if sims and sims[0].host_cnxn is not None:
        if sims[0].host_cnxn.data != b"host::" + want_banner + b"\0":
            return Violation("ctor-banner-not-announced", "CNXN payload %r, expected banner %r" % (sims[0].host_cnxn.data, want_banner)), info
    elif not sims:
        return Violation("ctor-no-connection", "the device object never connected to 127.0.0.1:%d (%r)" % (srv.port, rec.get("connect_exc"))), info
    if case["mute"]:
        e = rec.get("connect_exc")
        if e is None:
            return Violation("connect-to-silent-device-returned", repr(rec.get("connect"))), info
        if type(e).__name__ not in ("TcpTimeoutException", "AdbTimeoutError"):
            return Violation("transport-raised", "connect() to a silent device raised %s: %s" % (type(e).__name__, e)), info
        hi = case["default"] * 3 + 3.0
        if rec["elapsed"] > hi:
            return Violation("ctor-default-timeout-not-in-force", "default_transport_timeout_s=%.1f given to the constructor, but connect() to a silent device needed %.2f s to time out (in-memory: %.1f s)"
                             % (case["default"], rec["elapsed"], case["default"])), info
        if rec["elapsed"] < case["default"] * 0.8:
            return Violation("timeout-too-early", "connect() gave up after %.3f s with a default transport timeout of %.1f s" % (rec["elapsed"], case["default"])), info
    else:
        if rec.get("connect_exc") is not None or rec.get("connect") is not True:
            return Violation("session-differs-from-in-memory", "connect() -> %r / %r" % (rec.get("connect"), rec.get("connect_exc"))), info
        if rec.get("shell") != "hi\n":
            return Violation("session-differs-from-in-memory", "shell('echo hi') -> %r / %r" % (rec.get("shell"), rec.get("shell_exc"))), info
    return None, info


# ============================================================================= C11 over real TCP: end-of-stream in the middle of an operation
EOF_OPS = {
    "shell": ({"services": {b"shell:ls": [b"ab", b"cd"]}}, {"op": "shell", "cmd": "ls"}),
    "pull": ({"fs": {b"/f": {"content": {"pat": b"abcdef", "n": 40}, "mode": 0o100644, "mtime": 3}}, "recv_sizes": [6]}, {"op": "pull", "path": "/f", "dest": "bytesio"}),
    "push": ({"maxdata": 4096}, {"op": "push", "src": {"kind": "bytesio", "content": {"pat": b"xy", "n": 9000}}, "path": "/p", "mtime": 9}),
    "stat": ({"fs": {b"/f": {"content": {"pat": b"abcdef", "n": 40}, "mode": 0o100644, "mtime": 3}}}, {"op": "stat", "path": "/f"}),
}


def eof_cases():
    out = []
    for api in ("sync", "async"):
        for name in sorted(EOF_OPS):
            for k in (1, 2, 3, 4, 6):
                out.append({"api": api, "opname": name, "fin_after": k})
    return out


def check_eof_case(case):
    """The device half-closes the TCP connection (end-of-stream for the host) after its k-th packet: connect()/the operation ends with an error in
    bounded time -- or completes, if nothing more was needed -- and never hangs or spins."""
    dev, op = EOF_OPS[case["opname"]]
    op = dict(op, read_timeout_s=0.5, transport_timeout_s=0.25)
    scn = {"device": dict(dev), "connect": {"read_timeout_s": 0.5, "transport_timeout_s": 0.25}, "ops": [op]}
    t0 = time.monotonic()
    out = run_session(scn, case["api"], server_kw={"fin_after": case["fin_after"]}, transport_timeout=0.25)
    elapsed = time.monotonic() - t0
    info = {"classes": [case["api"], "tcp-eof", case["opname"]], "nontrivial": True,
            "sample": dict(case, results=[r.get("exc", "ok") for r in out.results], elapsed=round(elapsed, 2))}
    if out.server_error is not None:
        raise env.HarnessError("socket server failed: %r" % (out.server_error,))
    for opx, res in zip(out.ops, out.results):
        if res.get("exc") == "Inconclusive":
            return Violation("operation-hung", "%s over TCP: after the device's end-of-stream the call did not finish within %d s (read_timeout_s=0.5)" % (opx["op"], WATCHDOG_S * 3)), info
        if "exc" not in res:
            v = expect.compare(scn, opx, res, scn["device"])
            if v is not None:
                return Violation("fabricated-result-after-eof", v.detail), info
    # two calls, each bounded by a small multiple of read_timeout_s + transport_timeout_s (pull may add its closing handshake): 0.75 s each; generous wall-clock margin
    if elapsed > 12.0:
        return Violation("timeout-too-late", "connect + %s needed %.1f s after an end-of-stream with read_timeout_s=0.5, transport_timeout_s=0.25" % (case["opname"], elapsed)), info
    return None, info
