"""Import the library under test from the working tree and install the virtual clock.

ADVF_REPO (default /repo) exists only so that a check can be pointed at a mutated scratch copy.
"""
import os
import sys

REPO = os.environ.get("ADVF_REPO", "/repo")
VERIF = os.path.dirname(os.path.dirname(os.path.abspath(__file__)))

sys.dont_write_bytecode = True
if REPO not in sys.path[:1]:
    sys.path.insert(0, REPO)

_loaded = {}


class HarnessError(Exception):
    """Something is wrong with the machinery, not with the code under test (exit code 2)."""


class VirtualClock(object):
    """Stands in for the `time` module inside adb_device / adb_device_async."""

    def __init__(self, start=1000000.0):
        self.t = float(start)
        self.t0 = float(start)

    def time(self):
        return self.t

    # a maintainer may legitimately switch the library to another clock function of the `time` module: all of them are virtual here.
    # As in reality, the monotonic clocks have another origin than the epoch clock (mixing the two must not go unnoticed).
    def monotonic(self):
        return self.t - self.t0 + 4321.0

    def perf_counter(self):
        return self.t - self.t0 + 87.5

    def advance(self, dt):
        if dt > 0:
            self.t += dt

    def sleep(self, dt):   # pragma: no cover - the library never sleeps
        self.advance(dt)


class _ClockProxy(object):
    """Module-level stand-in whose target can be swapped per run (threads share one clock per run)."""

    def __init__(self):
        self.target = VirtualClock()

    def time(self):
        return self.target.time()

    def monotonic(self):
        return self.target.monotonic()

    def perf_counter(self):
        return self.target.perf_counter()

    def sleep(self, dt):
        self.target.sleep(dt)


CLOCK = _ClockProxy()


def lib():
    """Import adb_shell from REPO (once) and return a namespace of its modules."""
    if _loaded:
        return _loaded["ns"]
    import importlib
    import types
    import adb_shell
    root = os.path.realpath(os.path.dirname(os.path.dirname(adb_shell.__file__)))
    if root != os.path.realpath(REPO):
        raise HarnessError("adb_shell imported from %s, expected %s" % (root, REPO))
    ns = types.SimpleNamespace()
    ns.adb_shell = adb_shell
    ns.adb_device = importlib.import_module("adb_shell.adb_device")
    ns.adb_device_async = importlib.import_module("adb_shell.adb_device_async")
    ns.adb_message = importlib.import_module("adb_shell.adb_message")
    ns.constants = importlib.import_module("adb_shell.constants")
    ns.exceptions = importlib.import_module("adb_shell.exceptions")
    ns.hidden_helpers = importlib.import_module("adb_shell.hidden_helpers")
    ns.base_transport = importlib.import_module("adb_shell.transport.base_transport")
    ns.base_transport_async = importlib.import_module("adb_shell.transport.base_transport_async")
    ns.real_time = ns.adb_device.time
    # virtual clock: the modules call time.time() through their own `time` binding
    ns.adb_device.time = CLOCK
    ns.adb_device_async.time = CLOCK
    _loaded["ns"] = ns
    return ns


def new_clock(start=1000000.0):
    CLOCK.target = VirtualClock(start)
    return CLOCK.target
