"""C15 -- every message reaches the peer completely, even when the transport writes short."""
import time

from hypothesis import strategies as st

from .. import env, harness, runner, scenario as sc
from ..harness import Violation

ID = "C15"
LEVEL = "exploration"
RULE = ("(a) in memory, metamorphic: Hypothesis-generated sessions run once with a transport that accepts everything and once with generated per-call write capacities "
        "(1 byte .. unlimited, varying per call, the accepted count returned; also a transport returning None; also a slow link where each write call takes 5-50 ms of virtual time while read_timeout_s is 0.1-0.5 s; also calls that accept nothing and report 0; also one write call that fails outright -- drawn as a fraction of the session's write calls, and swept exhaustively over every write call of 6 fixed sessions x 5 short-write patterns x {timeout, broken pipe} x both APIs: a call that then returns normally must not leave an incomplete message at the peer): the device-side byte stream must decode to the same packet sequence "
        "and all results must be equal, or the call raised. (b) real loopback TCP: AdbDevice(TcpTransport)/AdbDeviceAsync(TcpTransportAsync) push 64 KiB..3 MiB to a socket server "
        "running the simulator with SO_RCVBUF=4096, a slow reader and client SO_SNDBUF=4096, transport_timeout_s set: content on the simulator == source (a raise is a violation here: the peer is healthy); plus 100 KB / 1 MiB written directly through TcpTransport / TcpTransportAsync with 4 KiB socket buffers to a slow reader: what bulk_write reported as written is what the peer has after close(). "
        "Non-trivial: >= 1 write call accepted fewer bytes than offered. Distinct = case hash.")
ASSUMPTIONS = ["in-memory transport reports the accepted count like socket.send / libusb bulkWrite", "kernel loopback TCP behaviour for part (b)"]


@st.composite
def mem_cases(draw):
    case = draw(sc.session(max_ops=4, with_wcap=True))
    if case["transport"].get("wcap") and draw(st.sampled_from([False, False, True])):
        # a slow link: each write call takes 5-50 ms, so that a message needing many short writes is on the wire for longer than the
        # operations' read_timeout_s (which bounds waiting for the device, not sending)
        case["transport"]["wdelay"] = draw(st.sampled_from([0.005, 0.02, 0.05]))
        for o in case["ops"]:
            o["read_timeout_s"] = draw(st.sampled_from([0.1, 0.5]))
            if o["op"] == "push" and not o.get("mtime"):
                o["mtime"] = 1234          # (mtime 0 means "now", and the two runs being compared do not share a clock)
    if draw(st.sampled_from([False, False, False, True])):
        case["transport"]["ret_none"] = True
    elif draw(st.sampled_from([False, False, True])):
        # a write that fails outright in the middle of the session (possibly right after a short write of the same message)
        # which write call fails is drawn as a fraction of the session's write calls (counted in a fault-free run), so that late calls -- e.g. the
        # CLSE that ends a command -- are hit as often as early ones
        case["transport"]["fault_frac"] = draw(st.floats(0, 0.999))
        case["transport"]["fault_kind"] = draw(st.sampled_from(["w_timeout", "w_pipe"]))
    return case


def check_faulted(case):
    """Short writes AND a failing write: a call may raise, but a call that returns normally must not leave a torn message at the peer."""
    if "fault_frac" in case["transport"]:
        # locate the failing write call from a fault-free run of the same session
        tr = {k: v for k, v in case["transport"].items() if k not in ("fault_frac", "fault_kind")}
        o0 = runner.run(dict(case, transport=tr))
        widx = [c[4] for c in o0.core.calls if c[0] == "w"]
        if widx:
            tr["faults"] = {str(widx[min(len(widx) - 1, int(len(widx) * case["transport"]["fault_frac"]))]): case["transport"]["fault_kind"]}
        else:
            tr["faults"] = {"2": case["transport"]["fault_kind"]}
        case = dict(case, transport=tr)
    pend = {}

    def before(out, i, op):
        if i > 0:
            pend[i - 1] = out.core.sim.decoder.pending
    o = runner.run(case, before_op=before)
    info = {"classes": [o.api, "write-fault"]}
    if o.watchdog:
        info["inconclusive"] = True
        return None, info
    pend[len(o.results) - 1] = o.core.sim.decoder.pending
    for i, res in enumerate(o.results):
        if "exc" in res:
            break          # "or the call raises"; what happens on the broken connection afterwards is not this property's subject
        if pend.get(i, 0):
            return Violation("message-silently-truncated", "op %d %r returned normally, but the peer holds %d bytes of an incomplete message (a write failed or was short and the rest was never sent)"
                             % (i, o.ops[i].get("op"), pend[i])), info
    for sim in o.sims:
        if sim.framing_error is not None and not any("exc" in r for r in o.results):
            return Violation("peer-stream-corrupt", str(sim.framing_error)), info
    info["nontrivial"] = o.core.short_writes > 0 or any("exc" in r for r in o.results)
    info["sample"] = {"ops": [x["op"] for x in case["ops"]], "wcap": case["transport"].get("wcap"), "faults": case["transport"]["faults"], "results": [r.get("exc", "ok") for r in o.results]}
    return None, info


def check_mem(case):
    if case["transport"].get("faults") or "fault_frac" in case["transport"]:
        return check_faulted(case)
    base = dict(case)
    base["transport"] = dict(case["transport"], wcap=[], ret_none=False, wdelay=0)
    o1 = runner.run(base)
    o2 = runner.run(case)
    info = {"classes": [o2.api]}
    if o1.watchdog or o2.watchdog:
        info["inconclusive"] = True
        return None, info
    h1 = [(p.cmd, p.arg0, p.arg1, p.data) for p in o1.host_packets()]
    h2 = [(p.cmd, p.arg0, p.arg1, p.data) for p in o2.host_packets()]
    for sim in o2.sims:
        if sim.framing_error is not None:
            return Violation("peer-stream-corrupt", "with write capacities %r the device could not decode the host's byte stream: %s" % (case["transport"]["wcap"], sim.framing_error)), info
    for i, (r1, r2) in enumerate(zip(o1.results, o2.results)):
        if "exc" in r2 and "exc" not in r1:
            # "or the call raises": allowed by the statement, but everything the peer did receive must be a prefix of the full-write traffic
            if h2 != h1[:len(h2)]:
                return Violation("peer-traffic-not-a-prefix", "op %d raised %s under short writes and the peer saw different packets" % (i, r2["exc"])), info
            info["classes"].append("raised-under-short-writes")
            info["nontrivial"] = o2.core.short_writes > 0
            return None, info
        a = r1 if "exc" not in r1 else {"exc": r1["exc"]}
        b = r2 if "exc" not in r2 else {"exc": r2["exc"]}
        if a != b:
            return Violation("result-depends-on-write-capacity", "op %d %r: full writes -> %s ; capacities %r -> %s" % (i, o2.ops[i].get("op"), _s(a), case["transport"]["wcap"], _s(b))), info
    if h1 != h2:
        k = next((i for i, (a, b) in enumerate(zip(h1, h2)) if a != b), min(len(h1), len(h2)))
        return Violation("message-truncated-or-altered", "peer packet %d differs: full-write run %s, short-write run %s (totals %d/%d)"
                         % (k, o1.host_packets()[k].brief() if k < len(h1) else None, o2.host_packets()[k].brief() if k < len(h2) else None, len(h1), len(h2))), info
    for sim in o2.sims:
        if sim.decoder.pending:
            return Violation("trailing-partial-message", "%d bytes of an incomplete message at the peer" % sim.decoder.pending), info
    info["nontrivial"] = o2.core.short_writes > 0
    if case["transport"].get("ret_none"):
        info["classes"].append("returns-None")
    if o2.core.short_writes:
        info["classes"].append("short-writes")
    info["sample"] = {"ops": [o["op"] for o in case["ops"]], "wcap": case["transport"]["wcap"], "short_writes": o2.core.short_writes, "write_calls": sum(1 for c in o2.core.calls if c[0] == "w"), "api": o2.api}
    return None, info


SWEEP_SESSIONS = [
    [{"op": "shell", "cmd": "echo hi", "decode": True}, {"op": "shell", "cmd": "id", "decode": True}],
    [{"op": "exec_out", "cmd": "cat /proc/version", "decode": False}, {"op": "shell", "cmd": "id", "decode": True}],
    [{"op": "streaming_shell", "cmd": "logcat", "decode": True}, {"op": "shell", "cmd": "id", "decode": True}],
    [{"op": "list", "path": "/sdcard"}, {"op": "stat", "path": "/sdcard/a"}, {"op": "shell", "cmd": "id", "decode": True}],
    [{"op": "pull", "path": "/sdcard/a", "dest": "bytesio", "cb": None}, {"op": "shell", "cmd": "id", "decode": True}],
    [{"op": "push", "src": {"kind": "bytesio", "content": {"pat": b"ab", "n": 9000}}, "path": "/sdcard/b", "mode": 0o100644, "mtime": 7, "cb": None}, {"op": "shell", "cmd": "id", "decode": True}],
]
SWEEP_WCAPS = [[], [10], [23], [1, 0], [0, 5]]


def sweep_cases(shard, nshards):
    """Every write call of a few fixed sessions fails once (timeout / broken pipe), under several short-write patterns, both APIs."""
    out = []
    k = 0
    for api in ("sync", "async"):
        for si, ops in enumerate(SWEEP_SESSIONS):
            for wcap in SWEEP_WCAPS:
                k += 1
                if k % nshards != shard:
                    continue
                base = {"api": api, "device": {"maxdata": 4096, "fs": {b"/sdcard/a": {"content": {"pat": b"xyz", "n": 5000}}}, "dirs": {b"/sdcard": [(0o100644, 3, 4, b"a")]},
                                               "stats": {b"/sdcard/a": (0o100644, 5000, 9)},
                                               "services": {b"shell:echo hi": [b"hi\n"], b"shell:id": [b"uid=0", b"(root)\n"], b"exec:cat /proc/version": [b"Linux"], b"shell:logcat": [b"a\n", b"b\n", b"c\n"]}},
                        "dev_tape": [], "transport": {"flavour": "raises", "wcap": wcap}, "connect": {}, "ops": ops}
                o0 = runner.run(base)
                for idx in [c[4] for c in o0.core.calls if c[0] == "w"]:
                    for kind in ("w_timeout", "w_pipe"):
                        out.append(dict(base, transport=dict(base["transport"], faults={str(idx): kind})))
    return out


def _s(x):
    r = repr(x)
    return r if len(r) < 300 else r[:300] + "..."


def replay(part, case):
    if part == "socket":
        from .. import sockcheck
        return sockcheck.check_push_case(case)[0]
    if part == "tcp-write":
        from .. import sockcheck
        return sockcheck.check_transport(case)[0]
    return check_mem(case)[0]


def run(tier, seed):
    t0 = time.time()
    quick = tier == "quick"
    col = harness.corpus_part(ID, "mem", check_mem)
    col.merge(harness.enumeration_part("mem", sweep_cases, check_mem))
    col.merge(harness.hypothesis_part("mem", mem_cases(), check_mem, 4000 if quick else 100000, seed, shrink=not quick))
    try:
        from .. import sockcheck
    except ImportError:
        sockcheck = None
    if sockcheck is not None:
        col.merge(sockcheck.push_part(ID, tier, seed))
        # transport level: what bulk_write reported as written (looping over its counts) is what the peer has after close()
        strat = sockcheck.peer_cases().map(lambda c: dict(c, big_write=c["big_write"] or 100000, sndbuf=4096, peer_rcvbuf=4096))
        col.merge(harness.hypothesis_part("tcp-write", strat, sockcheck.check_transport, 32 if quick else 480, seed))
    return harness.finish(ID, tier, seed, LEVEL, col, RULE, ASSUMPTIONS, t0)
