"""C11 -- no operation hangs: a stalled device produces a timeout error in bounded (virtual) time."""
import itertools
import time

from hypothesis import strategies as st

from .. import env, harness, runner, expect
from ..harness import Violation

ID = "C11"
LEVEL = "fault_enumeration"
RULE = ("Complete enumeration (thorough) of: operation in {connect no-auth / signature / public-key, shell, streaming_shell, exec_out, root, list, stat, pull, push} x stall point k in "
        "every device packet of the unstalled run x stall kind in {silence (transport raises), silence (transport returns b''), EOF, trickle 1 byte per read, only foreign traffic for ever; plus, for commands with a whole-command limit, endless output on the command's own stream} x "
        "transport_timeout_s in {None,-1,0,0.1,2,30} x read_timeout_s in {-1,0,0.5,10} x timeout_s in {None,0,0.3,30} (where the API has it) x both APIs, under a virtual clock; quick tier: "
        "a seed-chosen 1/8 slice plus every k=last case; Hypothesis adds off-grid timeouts. Oracle: the call raises AdbTimeoutError or TcpTimeoutException within "
        "4*(max(R,0)+max(T_eff,0)) + max(total,0) + 1 s of virtual time after the stall began (x2 for pull, which also awaits its closing CLSE), never returns normally unless the data kept "
        "flowing (trickle) and then with the model's result; Watchdog = non-termination; every transport call's timeout argument <= each given timeout. "
        "Part tcp-eof (real loopback TCP, both transports): the device half-closes the connection after its k-th packet (k in 1,2,3,4,6) during connect+{shell, stat, pull, push} with read_timeout_s=0.5, transport_timeout_s=0.25: every call ends (error, or the model's result) -- a call that is still running after 60 s, or a case that needs more than 12 s, is a violation. "
        "Non-trivial: stall at k >= 1. Distinct = (op, k, kind, timeouts, api).")
ASSUMPTIONS = ["virtual clock: data-carrying calls cost 1 us, empty reads 1 ms, a silent read costs its timeout, foreign packets 50 ms each", "auth_timeout_s=None (documented 'wait for ever') excluded"]

KINDS = ["silence-raises", "silence-empty", "eof", "trickle", "foreign"]     # plus "endless" (whole-command limit part)
T_GRID = [None, -1, 0, 0.1, 2, 30]
R_GRID = [-1, 0, 0.5, 10]
TOTAL_GRID = [None, 0, 0.3, 30]
AUTH_T = 0.7

FS = {b"/f": {"content": {"pat": b"abc", "n": 10}, "mode": 0o100644, "mtime": 3}}
BASES = {
    "connect-noauth": {"device": {}, "connect": {}, "ops": []},
    "connect-sig": {"device": {"auth": {"mode": "key", "accept": "k1"}}, "connect": {"keys": [{"tag": "k0"}, {"tag": "k1"}], "auth_timeout_s": AUTH_T}, "ops": []},
    "connect-pub": {"device": {"auth": {"mode": "pubkey"}}, "connect": {"keys": [{"tag": "k0"}], "auth_timeout_s": AUTH_T}, "ops": []},
    "shell": {"device": {"services": {b"shell:ls": [b"ab", b"cd"]}}, "connect": {}, "ops": [{"op": "shell", "cmd": "ls"}]},
    "streaming_shell": {"device": {"services": {b"shell:ls": [b"ab", b"cd"]}}, "connect": {}, "ops": [{"op": "streaming_shell", "cmd": "ls", "decode": False}]},
    "exec_out": {"device": {"services": {b"exec:ls": [b"ab", b"cd"]}}, "connect": {}, "ops": [{"op": "exec_out", "cmd": "ls", "decode": False}]},
    "root": {"device": {"services": {b"root:": [b"restarting adbd as root\n"]}}, "connect": {}, "ops": [{"op": "root"}]},
    "list": {"device": {"dirs": {b"/d": [(1, 2, 3, b"a"), (4, 5, 6, b"bb")]}, "cuts": [30]}, "connect": {}, "ops": [{"op": "list", "path": "/d"}]},
    "stat": {"device": {"fs": FS}, "connect": {}, "ops": [{"op": "stat", "path": "/f"}]},
    "pull": {"device": {"fs": FS, "recv_sizes": [6]}, "connect": {}, "ops": [{"op": "pull", "path": "/f", "dest": "bytesio"}]},
    "push": {"device": {"maxdata": 4096}, "connect": {}, "ops": [{"op": "push", "src": {"kind": "bytesio", "content": {"pat": b"xy", "n": 5000}}, "path": "/p", "mtime": 9}]},
}
LONG = [b"%d" % (i % 10) for i in range(40)]
BASES_LONG = {
    "shell-long": {"device": {"services": {b"shell:ls": LONG}}, "connect": {}, "ops": [{"op": "shell", "cmd": "ls"}]},
    "exec_out-long": {"device": {"services": {b"exec:ls": LONG}}, "connect": {}, "ops": [{"op": "exec_out", "cmd": "ls", "decode": False}]},
    "root-long": {"device": {"services": {b"root:": LONG}}, "connect": {}, "ops": [{"op": "root"}]},
}
HAS_TOTAL = ("shell", "exec_out", "root", "shell-long", "exec_out-long", "root-long")


def make_scn(opname, api, k, kind, T, R, total, nconn=None, delta=None):
    base = BASES.get(opname) or BASES_LONG[opname]
    scn = {"api": api, "device": dict(base["device"]), "connect": dict(base["connect"]), "ops": [dict(o) for o in base["ops"]]}
    is_conn = opname.startswith("connect")
    tgt = scn["connect"] if is_conn else scn["ops"][0]
    if T is not None:
        tgt["transport_timeout_s"] = T
    tgt["read_timeout_s"] = R
    if total is not None and opname in HAS_TOTAL:
        tgt["timeout_s"] = total
    flavour = "empty" if kind == "silence-empty" else "raises"
    tr = {"flavour": flavour, "max_calls": 300000, "log_calls": False}
    if k is not None:
        skind = {"silence-raises": "silence", "silence-empty": "silence"}.get(kind, kind)
        at = k if is_conn else nconn + k
        tr["stall"] = {"at": at, "kind": skind, "delta": delta if delta is not None else 0.05}
    scn["transport"] = tr
    return scn


_N = {}


def unstalled_counts(opname, api):
    """(#device packets consumed by connect, #consumed by the operation) in the unstalled run."""
    key = (opname, api)
    if key not in _N:
        scn = make_scn(opname, api, None, "silence-raises", None, 10.0, None)
        out = runner.run(scn)
        if any("exc" in r for r in out.results):
            raise env.HarnessError("C11 base scenario %s/%s fails unstalled: %r" % (opname, api, out.results))
        sim = out.sim
        t_conn_end = out.t_ops[0][1]
        nconn = sum(1 for t, p, _ in sim.device_log if t <= t_conn_end)
        _N[key] = (nconn, len(sim.device_log) - nconn)
    return _N[key]


def grid():
    for opname in BASES:
        totals = TOTAL_GRID if opname in HAS_TOTAL else [None]
        for api in ("sync", "async"):
            nconn, nop = unstalled_counts(opname, api)
            n = nconn if opname.startswith("connect") else nop
            for k in range(n):
                for kind in KINDS:
                    for T in T_GRID:
                        for R in R_GRID:
                            for total in totals:
                                yield {"op": opname, "api": api, "k": k, "kind": kind, "T": T, "R": R, "total": total, "last": k == n - 1}


def check_case(c):
    opname, api = c["op"], c["api"]
    nconn, nop = unstalled_counts(opname, api)
    T, R, total = c["T"], c["R"], c.get("total")
    scn = make_scn(opname, api, c["k"], c["kind"], T, R, total, nconn, c.get("delta"))
    out = runner.run(scn)
    info = {"classes": [opname, c["kind"], api], "nontrivial": c["k"] >= 1, "sample": dict(c)}
    is_conn = opname.startswith("connect")
    idx = 0 if is_conn else 1
    if out.watchdog:
        return Violation("non-termination", "%r: operation budget exhausted: %s" % (c, out.watchdog[1])), info
    if len(out.results) <= idx:
        raise env.HarnessError("C11: op did not run: %r" % (out.results,))
    res = out.results[idx]
    core = out.core
    # effective timeouts
    Rp = R if (total is None or opname not in HAS_TOTAL) else min(R, total)
    Teff = Rp if T is None else min(T, Rp)
    if core.stall_t is None:
        info["classes"].append("stall-not-reached")
        if "exc" in res and res["exc"] not in ("AdbTimeoutError", "TcpTimeoutException"):
            return Violation("wrong-exception-type", "%r: %s: %s" % (c, res["exc"], res["msg"])), info
        if "exc" not in res:
            return Violation("returned-without-awaited-packet", "%r: returned %r although device packet #%d was never sent" % (c, res["ok"], c["k"])), info
        return None, info
    if "exc" not in res:
        if c["kind"] == "trickle":
            # data kept flowing: a slow but complete answer is legitimate -- it must be the right one
            op = scn["ops"][0] if not is_conn else {"op": "connect"}
            v = expect.compare(scn, op, res, scn["device"])
            if v is not None:
                return Violation("fabricated-result", "%r: %s" % (c, v.detail)), info
            info["classes"].append("trickle-completed")
            # "bytes trickling too slowly": the 24-byte header of the first trickled packet alone takes 24*delta; if that exceeds
            # read_timeout_s the read of that block must have timed out (read_timeout_s bounds a whole block, it is not an inactivity limit)
            d_eff = c.get("delta", 0.05)
            t_read = AUTH_T if (opname == "connect-pub" and c["k"] >= 2) else Teff      # after offering the public key the reads use auth_timeout_s
            if t_read is not None:
                d_eff = min(d_eff, max(t_read, 0))
            d_eff = max(d_eff, 1e-3)
            if 24 * d_eff > max(Rp, 0) + 2 * d_eff + 0.01:
                return Violation("slow-trickle-not-timed-out", "%r: the stalled packet's header arrived at 1 byte per %.3f s (24 bytes = %.3f s) with read_timeout_s=%r, yet the operation completed normally"
                                 % (c, d_eff, 24 * d_eff, Rp)), info
            if total is not None and opname in HAS_TOTAL:
                # a whole-command limit was given: the command may only complete if it did so (about) within that limit
                elapsed = out.t_ops[idx][1] - core.stall_t
                bound = 4 * (max(Rp, 0) + max(Teff, 0)) + max(total, 0) + 1.0
                if elapsed > bound:
                    return Violation("total-timeout-not-enforced", "%r: command completed %.3f virtual s after the stall began although timeout_s=%r (bound %.3f)" % (c, elapsed, total, bound)), info
            return None, info
        return Violation("returned-without-awaited-packet", "%r: returned %r although the device stalled before packet #%d" % (c, res["ok"], c["k"])), info
    if res["exc"] not in ("AdbTimeoutError", "TcpTimeoutException"):
        return Violation("wrong-exception-type", "%r: expected AdbTimeoutError or the transport's timeout error, got %s: %s" % (c, res["exc"], res["msg"])), info
    if c["kind"] == "trickle" and (total is None or opname not in HAS_TOTAL):
        # the reverse direction: bytes that trickle FAST ENOUGH must not time out.  Every block of these workloads is <= 40 bytes, each byte arrives
        # within the transport timeout, so a block completes well inside read_timeout_s when 40*delta is (comfortably) below it.
        d_eff = c.get("delta", 0.05)
        t_read = AUTH_T if (opname == "connect-pub" and c["k"] >= 2) else Teff
        if t_read is not None:
            d_eff = min(d_eff, max(t_read, 0))
        d_eff = max(d_eff, 1e-3)
        if t_read is not None and t_read > 0 and d_eff <= t_read and 60 * d_eff < max(Rp, 0) * 0.5:
            return Violation("spurious-timeout-under-trickle", "%r: every byte arrived within the transport timeout (1 byte per %.3f s) and no block needs more than %.3f s, far below read_timeout_s=%r, yet the call raised %s: %s"
                             % (c, d_eff, 60 * d_eff, Rp, res["exc"], res["msg"])), info
    t_end = out.t_ops[idx][1]
    elapsed = t_end - core.stall_t
    A = AUTH_T if opname in ("connect-pub",) else 0
    bound = 4 * (max(Rp, 0) + max(Teff, 0, A)) + max(total or 0, 0) + 1.0
    if opname == "pull":
        bound *= 2
    if (c["kind"] != "trickle" or (total is not None and opname in HAS_TOTAL)) and elapsed > bound:
        return Violation("timeout-too-late", "%r: %.3f virtual s between the stall and the exception; bound %.3f" % (c, elapsed, bound)), info
    info["classes"].append("raised:" + res["exc"])
    return None, info


def _before_op(out, i, op):
    if i == 1:
        out.extra["ncalls_after_op0"] = out.core.ncalls


@st.composite
def offgrid(draw):
    opname = draw(st.sampled_from(sorted(BASES)))
    api = draw(st.sampled_from(["sync", "async"]))
    nconn, nop = unstalled_counts(opname, api)
    n = nconn if opname.startswith("connect") else nop
    f = st.one_of(st.floats(-2, 40, allow_nan=False), st.integers(-2, 40))
    return {"op": opname, "api": api, "k": draw(st.integers(0, n - 1)), "kind": draw(st.sampled_from(KINDS)),
            "T": draw(st.one_of(st.none(), f)), "R": draw(f), "total": draw(st.one_of(st.none(), f)) if opname in HAS_TOTAL else None,
            "delta": draw(st.sampled_from([0.001, 0.05, 0.5, 5.0]))}


def replay(part, case):
    if part == "tcp-eof":
        from .. import sockcheck
        return sockcheck.check_eof_case(case)[0]
    if part == "timeout-args":
        return _targs(case)[0]
    return check_case(case)[0]


def run(tier, seed):
    t0 = time.time()
    quick = tier == "quick"
    for opname in BASES:
        for api in ("sync", "async"):
            unstalled_counts(opname, api)

    def items(shard, nshards):
        for i, c in enumerate(grid()):
            if i % nshards != shard:
                continue
            if quick and not c["last"] and (i // nshards + seed) % 8 != 0:
                continue
            yield c

    col = harness.corpus_part(ID, "grid", check_case)
    col.merge(harness.enumeration_part("grid", items, check_case))
    # timeout arguments at the transport, healthy runs over the timeout grid
    def targs(shard, nshards):
        i = 0
        for opname in BASES:
            if opname.startswith("connect"):
                continue
            for api in ("sync", "async"):
                for T in T_GRID:
                    for R in [0.5, 10]:
                        for total in (TOTAL_GRID if opname in HAS_TOTAL else [None]):
                            i += 1
                            if i % nshards == shard:
                                yield {"op": opname, "api": api, "T": T, "R": R, "total": total}
    col.merge(harness.enumeration_part("timeout-args", targs, lambda c: _targs(c)))
    def long_items(shard, nshards):
        i = 0
        for opname in BASES_LONG:
            for api in ("sync", "async"):
                for delta in (0.001, 0.01, 0.03):
                    for T in (None, 0.1, 2):
                        for R in (0.5, 10):
                            for total in (0, 0.3, 1.0):
                                i += 1
                                if i % nshards == shard:
                                    yield {"op": opname, "api": api, "k": 1, "kind": "trickle", "T": T, "R": R, "total": total, "delta": delta}
    col.merge(harness.enumeration_part("grid", long_items, check_case))

    def endless_items(shard, nshards):
        i = 0
        for opname in ("shell", "exec_out", "root"):
            for api in ("sync", "async"):
                for delta in (0.001, 0.01, 0.2):
                    for T in (None, 0.1, 2):
                        for R in (0.5, 10):
                            for total in (0, 0.3, 5):
                                i += 1
                                if i % nshards == shard:
                                    yield {"op": opname, "api": api, "k": 1, "kind": "endless", "T": T, "R": R, "total": total, "delta": delta}
                                    if total == 0 and delta == 0.001:
                                        # output that is always ready (zero delay) is only meaningful with timeout_s=0: any positive limit would need
                                        # 10^5 packets of 1 us each to elapse, which is the harness's call budget, not a property of the code
                                        yield {"op": opname, "api": api, "k": 1, "kind": "endless", "T": T, "R": R, "total": 0, "delta": 0.0}
    col.merge(harness.enumeration_part("grid", endless_items, check_case))
    col.merge(harness.hypothesis_part("grid", offgrid(), check_case, 1500 if quick else 40000, seed, shrink=not quick))
    # the end-of-stream stall on a real socket (the in-memory transport models EOF as empty reads; TcpTransport / TcpTransportAsync have their own code for it)
    from .. import sockcheck
    col.merge(harness.enumeration_part("tcp-eof", lambda sh, n: [c for i, c in enumerate(sockcheck.eof_cases()) if i % n == sh], sockcheck.check_eof_case))
    return harness.finish(ID, tier, seed, LEVEL, col, RULE, ASSUMPTIONS, t0, exhaustive=not quick,
                          extra={"grid_complete": not quick, "ops": {k: list(unstalled_counts(k, "sync")) for k in BASES}})


def _targs(c):
    opname, api = c["op"], c["api"]
    T, R, total = c["T"], c["R"], c.get("total")
    scn = make_scn(opname, api, None, "silence-raises", T, R, total)
    scn["transport"]["log_calls"] = True
    out = runner.run(scn, before_op=_before_op)
    info = {"classes": ["timeout-args", opname], "nontrivial": True, "sample": dict(c)}
    if out.watchdog:
        return Violation("non-termination", repr(c)), info
    n0 = out.extra.get("ncalls_after_op0", 0)
    for kind, n, tmo, outcome, idx in out.core.calls:
        if idx < n0 or kind not in ("r", "w"):
            continue
        for name, lim in (("transport_timeout_s", T), ("read_timeout_s", R), ("timeout_s", total if opname in HAS_TOTAL else None)):
            if lim is not None and (tmo is None or tmo > lim):
                return Violation("transport-timeout-exceeds-" + name, "%r: transport call #%d used timeout %r > %s=%r" % (c, idx, tmo, name, lim)), info
    return None, info
