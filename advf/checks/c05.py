"""C05 -- CNXN/AUTH handshake follows the ADB authentication state machine."""
import os
import shutil
import socket
import tempfile
import time

from hypothesis import strategies as st

from .. import env, harness, runner, scenario as sc, wire
from ..harness import Violation

L = env.lib()

ID = "C05"
LEVEL = "exploration"
RULE = ("Hypothesis-generated handshakes: 1-3 connect() calls on one object, each with 0..4 keys (fake signers whose signature names key and token; "
        "GetPublicKey returning str or bytes), device policy in {no auth, accepts key k, accepts only the public key, never}, a fresh token per challenge, "
        "device maxdata, 0-3 stray non-CNXN/AUTH packets before each answer, an AUTH challenge with arg0 != TOKEN while a key is still unused, one more AUTH(TOKEN) after the public key was offered (before the final CNXN or instead of it), "
        "auth_timeout_s, banner str/bytes/None, optional close() in between, both APIs; thorough tier adds two real PythonRSASigner keys verified by integer RSA. "
        "Oracle: reference handshake model predicts the exact host packet sequence, return value / exception type, available, max_chunk_size, callback "
        "count and position, and the transport timeout used while waiting for the user. Non-trivial: >= 2 challenges in one attempt, or a failed attempt followed by another attempt. Distinct = case hash.")
ASSUMPTIONS = ["device model per AOSP adb auth: fresh 20-byte token per AUTH(TOKEN), signature checked against the last token", "fake signers (quick); real RSA keys (thorough)"]


@st.composite
def cases(draw, real=False):
    nk_total = draw(st.integers(0, 4)) if not real else 2
    tags = ["k%d" % i for i in range(nk_total)]
    mode = draw(st.sampled_from(["none", "key", "key", "key", "pubkey", "never"]))
    auth = {"mode": mode}
    if mode == "key":
        auth["accept"] = draw(st.sampled_from(tags + ["kX"]))
        auth["pubkey_ok"] = draw(st.booleans())
    if mode != "none":
        auth["rechallenge_after_pubkey"] = draw(st.sampled_from([False, False, True]))     # one more AUTH(TOKEN) after the public key was offered
    nconn = draw(st.integers(1, 3))
    ops = []
    for i in range(nconn):
        if real:
            ks = draw(st.lists(st.sampled_from(tags), unique=True, max_size=2))
            keys = [{"tag": t, "real": True} for t in ks]
        else:
            ks = draw(st.lists(st.sampled_from(tags), unique=True, max_size=4)) if tags else []
            keys = [{"tag": t, "pub": draw(st.sampled_from(["str", "bytes"]))} for t in ks]
        c = {"op": "connect", "keys": keys if (keys or draw(st.booleans())) else None, "callback": draw(st.booleans()),
             "auth_timeout_s": draw(st.sampled_from([0.5, 3.0, 10.0, 0.01])), "read_timeout_s": draw(st.sampled_from([10.0, 2.0]))}
        if draw(st.booleans()):
            c["transport_timeout_s"] = draw(st.sampled_from([1.0, 9.0, 20.0]))
        ops.append(c)
        if draw(st.sampled_from([False, False, True])):
            ops.append({"op": "close"})
    maxnk = max([len(o.get("keys") or []) for o in ops if o["op"] == "connect"] + [0])
    if draw(st.sampled_from([False, False, False, True])) and maxnk > 0 and mode != "none":
        auth["bad_challenge_at"] = draw(st.integers(0, maxnk - 1))
        auth["bad_arg0"] = draw(st.sampled_from([0, 2, 3, 7, 2 ** 32 - 1]))
    dev = {"auth": auth, "maxdata": draw(sc.maxdata() | st.sampled_from([0, 1, 2, 4095])), "strays": draw(st.lists(st.integers(0, 3), max_size=4)),
           "token_seed": draw(st.binary(min_size=1, max_size=4)), "version": draw(st.sampled_from([0x01000000, 0x01000001, 0, 0xFFFFFFFF]))}
    banner = draw(st.sampled_from([None, "host1", b"bytes-banner", "ü"]))
    return {"api": draw(st.sampled_from(["sync", "async"])), "device": dev, "dev_tape": draw(sc.dev_tape(8)),
            "transport": {"flavour": draw(sc.flavour())}, "device_kwargs": {"banner": banner, "default_transport_timeout_s": draw(st.sampled_from([None, 5.0]))},
            "ops": ops}


# ----------------------------------------------------------------------------- reference model
def model_attempt(case, conn, sim, tokens):
    """Predict one connect() attempt.  `tokens` is the list of tokens the device issued in this attempt (ground truth from the simulator).

    Returns dict(packets=[(cmd, arg0, arg1, data)...], result=True|exc name, callback=bool, pub_index=int|None)
    """
    auth = case["device"]["auth"]
    banner = case["device_kwargs"].get("banner")
    if not banner:
        banner = socket.gethostname().encode("utf-8")
    elif isinstance(banner, str):
        banner = banner.encode("utf-8")
    pk = [(wire.A_CNXN, 0x01000000, 1048576, b"host::" + banner + b"\0")]
    keys = conn.get("keys") or []
    if auth["mode"] == "none":
        return {"packets": pk, "result": True, "callback": False, "pub": False}
    if not keys:
        return {"packets": pk, "result": "DeviceAuthError", "callback": False, "pub": False}
    bad = auth.get("bad_challenge_at")
    for i, k in enumerate(keys):
        if bad is not None and bad == i:
            return {"packets": pk, "result": "InvalidResponseError", "callback": False, "pub": False}
        sig = expected_signature(k, tokens[i])
        pk.append((wire.A_AUTH, wire.AUTH_SIGNATURE, 0, sig))
        if auth["mode"] == "key" and auth.get("accept") == k["tag"]:
            return {"packets": pk, "result": True, "callback": False, "pub": False}
    pk.append((wire.A_AUTH, wire.AUTH_RSAPUBLICKEY, 0, expected_pub(keys[0])))
    ok = auth["mode"] == "pubkey" or (auth["mode"] == "key" and auth.get("pubkey_ok"))
    return {"packets": pk, "result": True if ok else "TIMEOUT", "callback": bool(conn.get("callback")), "pub": True}


REAL = {}


def expected_signature(k, token):
    if k.get("real"):
        return REAL[k["tag"]]["sign"](token)
    return b"SIG<" + k["tag"].encode() + b">" + token


def expected_pub(k):
    if k.get("real"):
        return REAL[k["tag"]]["pub"] + b"\0"
    return runner.expected_pubkey(k["tag"])


def split_attempts(sim):
    """Host packets grouped per CNXN."""
    groups = []
    for i, (t, p) in enumerate(sim.host_log):
        if p.cmd == wire.A_CNXN:
            groups.append([])
        if not groups:
            groups.append([])
        groups[-1].append((i, p))
    return groups


def check_case(case):
    scn = dict(case)
    if any(k.get("real") for o in case["ops"] for k in (o.get("keys") or [])):
        ensure_real_keys()
        scn["_verify"] = real_verify
        scn["ops"] = [dict(o, keys=[REAL[k["tag"]]["signer"] for k in o["keys"]]) if o.get("keys") else o for o in case["ops"]]
    out = runner.run(scn)
    info = {"classes": [out.api, "mode:" + case["device"]["auth"]["mode"]]}
    sim = out.sim
    if out.watchdog:
        return Violation("non-termination", repr(out.watchdog)), info
    groups = split_attempts(sim)
    # tokens issued per attempt, from the interleaved host/device packet order
    events = [(t, 0, "h", p) for t, p in sim.host_log] + [(t, 1, "d", p) for t, p, _ in sim.device_log]
    events.sort(key=lambda e: (e[0], e[1]))
    att = -1
    tokens_by_attempt = []
    for _, _, side, p in events:
        if side == "h" and p.cmd == wire.A_CNXN:
            att += 1
            tokens_by_attempt.append([])
        elif side == "d" and p.cmd == wire.A_AUTH and att >= 0:
            tokens_by_attempt[att].append(p.data)
    ci = -1
    multi = False
    failed_then_retry = False
    any_failed = False
    for i, op in enumerate(case["ops"]):
        res = out.results[i]
        if op["op"] != "connect":
            if out.available_after[i]:
                return Violation("available-after-close", "available is True after close()"), info
            continue
        ci += 1
        if any_failed:
            failed_then_retry = True
        if ci >= len(groups):
            return Violation("no-cnxn-sent", "connect() #%d sent no CNXN packet" % ci), info
        m = model_attempt(case, op, sim, tokens_by_attempt[ci] + [b"?" * 20] * 6)
        got = [(p.cmd, p.arg0, p.arg1, p.data) for _, p in groups[ci]]
        if got != m["packets"]:
            k = next((j for j, (a, b) in enumerate(zip(got, m["packets"])) if a != b), min(len(got), len(m["packets"])))
            return Violation("handshake-packets-differ", "connect #%d (keys=%r, device=%r): host packet %d differs\n expected %s\n got      %s\n (expected %d packets, got %d)"
                             % (ci, [k_["tag"] for k_ in op.get("keys") or []], case["device"]["auth"], k,
                                _pk(m["packets"][k]) if k < len(m["packets"]) else None, _pk(got[k]) if k < len(got) else None, len(m["packets"]), len(got))), info
        if len(m["packets"]) >= 3:
            multi = True
        # result
        if m["result"] is True:
            if res.get("ok") is not True:
                return Violation("connect-should-succeed", "connect #%d: device answered CNXN but got %r" % (ci, res)), info
            if not out.available_after[i]:
                return Violation("not-available-after-success", "connect returned True but available is False"), info
        else:
            any_failed = True
            if "exc" not in res:
                return Violation("connect-should-fail", "connect #%d returned %r, model expects %s" % (ci, res.get("ok"), m["result"])), info
            if m["result"] == "TIMEOUT":
                if res["exc"] not in ("AdbTimeoutError", "TcpTimeoutException"):
                    return Violation("wrong-exception-type", "expected a timeout error, got %s: %s" % (res["exc"], res["msg"])), info
            elif res["exc"] != m["result"]:
                return Violation("wrong-exception-type", "connect #%d: expected %s, got %s: %s" % (ci, m["result"], res["exc"], res["msg"])), info
            if out.available_after[i]:
                return Violation("available-after-failed-connect", "connect() raised %s but available is True" % res["exc"]), info
    # maxdata adopted after the last successful connect
    last_ok = [i for i, op in enumerate(case["ops"]) if op["op"] == "connect" and out.results[i].get("ok") is True]
    if last_ok and out.available_after[-1]:
        md = case["device"]["maxdata"]
        exp_chunk = min(65536, md // 2) or 2048
        if out.device.max_chunk_size != exp_chunk:
            return Violation("maxdata-not-adopted", "device CNXN maxdata=%d -> max_chunk_size should be %d, is %d" % (md, exp_chunk, out.device.max_chunk_size)), info
    # callback: exactly once per attempt that reaches the public-key step, right before the public key packet, device not available
    ncb_expected = 0
    ci = -1
    for i, op in enumerate(case["ops"]):
        if op["op"] != "connect":
            continue
        ci += 1
        m = model_attempt(case, op, sim, tokens_by_attempt[ci] + [b"?" * 20] * 6)
        if m["callback"]:
            ncb_expected += 1
    if out.auth_cb_calls != ncb_expected:
        return Violation("callback-count", "auth callback invoked %d times, expected %d" % (out.auth_cb_calls, ncb_expected)), info
    for idx in out.extra.get("cb_host_index", []):
        nxt = sim.host_log[idx][1] if idx < len(sim.host_log) else None
        prev = sim.host_log[idx - 1][1] if idx else None
        if nxt is None or nxt.cmd != wire.A_AUTH or nxt.arg0 != wire.AUTH_RSAPUBLICKEY or prev is None or prev.cmd != wire.A_AUTH or prev.arg0 != wire.AUTH_SIGNATURE:
            return Violation("callback-position", "callback was not invoked between the last signature and the public key (prev=%r next=%r)" % (prev, nxt)), info
    if any(out.extra.get("available_in_cb", [])):
        return Violation("available-inside-callback", "available was True while connect() was still running"), info
    # auth timeout used for the reads after the public key
    v = check_auth_timeout(case, out)
    if v:
        return v, info
    info["nontrivial"] = multi or failed_then_retry
    if multi:
        info["classes"].append(">=2-challenges")
    if failed_then_retry:
        info["classes"].append("failed-then-retry")
    if "bad_challenge_at" in case["device"]["auth"]:
        info["classes"].append("bad-challenge")
    if any(case["device"]["strays"]):
        info["classes"].append("strays")
    if out.auth_cb_calls:
        info["classes"].append("callback-invoked")
    for r in out.results:
        info["classes"].append("result:" + (r.get("exc") or str(r.get("ok"))))
    info["sample"] = {"auth": case["device"]["auth"], "ops": [{"op": o["op"], "keys": [k["tag"] for k in (o.get("keys") or [])]} for o in case["ops"]],
                      "results": [r.get("exc") or r.get("ok") for r in out.results], "host": [p.brief() for _, p in sim.host_log[:6]]}
    return None, info


def check_auth_timeout(case, out):
    """After the public key was offered, every read of that attempt must use auth_timeout_s."""
    conn_ops = [o for o in case["ops"] if o["op"] == "connect"]
    ci = -1
    after_pub = False
    pubs = set(out.core.pub_offered_at)
    for kind, n, tmo, outcome, idx in out.core.calls:
        if kind == "c":
            ci += 1
            after_pub = False
        elif kind == "x":
            after_pub = False
        elif kind == "w" and idx in pubs:
            after_pub = True
        elif kind == "r" and after_pub:
            want = conn_ops[ci]["auth_timeout_s"]
            if tmo != want:
                return Violation("auth-timeout-not-used", "read after offering the public key used timeout %r, auth_timeout_s is %r" % (tmo, want))
    return None


def _pk(t):
    cmd, a0, a1, data = t
    return "%s(%d,%d,%r)" % (wire.CMD_NAMES.get(cmd, hex(cmd)), a0, a1, data[:60])


# ----------------------------------------------------------------------------- real keys (thorough)
def ensure_real_keys():
    if REAL:
        return
    from adb_shell.auth.keygen import keygen
    from adb_shell.auth.sign_pythonrsa import PythonRSASigner
    from cryptography.hazmat.primitives import serialization
    d = tempfile.mkdtemp(prefix="advf-keys-")
    try:
        for tag in ("k0", "k1"):
            p = os.path.join(d, tag)
            keygen(p)
            signer = PythonRSASigner.FromRSAKeyPath(p)
            with open(p, "rb") as f:
                priv = serialization.load_pem_private_key(f.read(), None)
            nums = priv.private_numbers()
            n, e, dd = nums.public_numbers.n, nums.public_numbers.e, nums.d

            def sign(token, n=n, dd=dd):
                em = wire.emsa_pkcs1_v15_sha1(token, 256)
                return pow(int.from_bytes(em, "big"), dd, n).to_bytes(256, "big")
            pub = signer.GetPublicKey()
            REAL[tag] = {"signer": signer, "n": n, "e": e, "sign": sign, "pub": pub.encode() if isinstance(pub, str) else pub}
    finally:
        shutil.rmtree(d, ignore_errors=True)


def real_verify(sig, token):
    for tag, k in REAL.items():
        if len(sig) == 256:
            em = pow(int.from_bytes(sig, "big"), k["e"], k["n"]).to_bytes(256, "big")
            if em == wire.emsa_pkcs1_v15_sha1(token, 256):
                return tag
    return None


def replay(part, case):
    return check_case(case)[0]


def run(tier, seed):
    t0 = time.time()
    n = 12000 if tier == "quick" else 250000
    col = harness.corpus_part(ID, "main", check_case)
    col.merge(harness.hypothesis_part("main", cases(), check_case, n, seed, shrink=(tier == "thorough")))
    if tier == "thorough":
        ensure_real_keys()
        col.merge(harness.hypothesis_part("real-keys", cases(real=True), check_case, 3000, seed))
    return harness.finish(ID, tier, seed, LEVEL, col, RULE, ASSUMPTIONS, t0)
