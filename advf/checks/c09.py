"""C09 -- list and stat return exactly the device's directory entries and metadata."""
import time

from hypothesis import strategies as st

from .. import harness, runner, scenario as sc
from ..harness import Violation

ID = "C09"
LEVEL = "exploration"
RULE = ("Hypothesis-generated LIST replies (0..300 DENT records, names of 1..255 arbitrary bytes, mode/size/mtime from 32-bit boundary values U ints) and "
        "STAT triples; WRTE boundaries anywhere over the reply stream (one per record, fixed tiny sizes 1..21 that cut every 20-byte DENT header and every name, "
        "random); read fragmentation tape; optionally a slow link (every read takes up to 0.1 s, transport_timeout_s < read_timeout_s, whole reply within 4 s); both APIs. Oracle: result == the simulator's table, in order; stream closed by the host afterwards. "
        "Non-trivial: >= 2 entries with a record straddling packets, or a field >= 2^31. Distinct = case hash.")
ASSUMPTIONS = ["device simulator sync service per AOSP SYNC.TXT", "in-memory transport, virtual clock"]


def names():
    return st.one_of(
        st.binary(min_size=1, max_size=12),
        st.sampled_from([b".", b"..", b"a", b"DENT", b"DONE", b"\x00", b"\xff" * 255, "ü文件".encode(), b"x" * 255, b"FAIL\x04\x00\x00\x00"]),
        st.binary(min_size=1, max_size=255),
    )


@st.composite
def cases(draw):
    kind = draw(st.sampled_from(["list", "list", "stat"]))
    path = draw(sc.device_path(200))
    dev = {"rids": draw(sc.rid_list(3)), "zero_clse_reply": draw(st.booleans()), "lag": draw(st.lists(st.integers(0, 2), max_size=2))}
    if kind == "list":
        n = draw(st.one_of(st.integers(0, 8), st.integers(0, 8), st.integers(0, 300)))
        ent = st.tuples(sc.u32(), sc.u32(), sc.u32(), names())
        dents = draw(st.lists(ent, min_size=n, max_size=n))
        dev["dirs"] = {path.encode("utf8"): dents}
        total = sum(20 + len(d[3]) for d in dents) + 20
        op = {"op": "list", "path": path}
    else:
        dev["stats"] = {path.encode("utf8"): draw(st.tuples(sc.u32(), sc.u32(), sc.u32()))}
        total = 16
        op = {"op": "stat", "path": path}
    cuts = draw(st.one_of(st.none(), st.lists(st.integers(1, 21), min_size=1, max_size=3), st.lists(st.integers(1, 400), min_size=1, max_size=6),
                          st.lists(st.sampled_from([19, 20, 21, 39, 40, 41, 275]), min_size=1, max_size=3)))
    if cuts and total // min(cuts) > 1500:
        cuts = [max(c, total // 1500 + 1) for c in cuts]
    dev["cuts"] = cuts
    tr = {"flavour": draw(sc.flavour()), "frag": sc.tame_frag(draw(sc.frag_tape()), total + 500, budget=20000), "wcap": draw(sc.wcap_tape(2000, p_none=0.7))}
    if draw(st.sampled_from([False, False, True])):
        # a slow link: every read takes `frag_delay`; the caller's transport timeout is shorter than its read timeout.  Each read is in time and the
        # whole reply needs at most ~4 s, well inside read_timeout_s = 10 s
        tt = draw(st.sampled_from([0.2, 0.5, 1.0]))
        op["transport_timeout_s"] = tt
        m = sc.min_frag(tr["frag"]) or 4096
        nreads = (total + 500) // max(1, min(m, 4096)) + 60
        tr["frag_delay"] = min(draw(st.sampled_from([0.01, 0.03, 0.1])), tt, 4.0 / nreads)
    return {"api": draw(st.sampled_from(["sync", "async"])), "device": dev, "dev_tape": draw(sc.dev_tape(8)),
            "transport": tr, "connect": {}, "ops": [op]}


def check_case(case):
    out = runner.run(case)
    op = case["ops"][0]
    res = out.results[-1]
    info = {"classes": [out.api, op["op"]]}
    if out.watchdog:
        info["inconclusive"] = True
        return None, info
    if "exc" in res:
        return Violation("unexpected-exception", "%s: %s" % (res["exc"], res["msg"])), info
    path = op["path"].encode("utf8")
    s = out.op_streams[-1][0]
    if op["op"] == "list":
        dents = case["device"]["dirs"][path]
        exp = [(bytes(nm), m, sz, mt) for (m, sz, mt, nm) in dents]
        got = res["ok"]
        if got != exp:
            i = next((k for k, (a, b) in enumerate(zip(got, exp)) if a != b), min(len(got), len(exp)))
            return Violation("list-wrong-entries", "expected %d entries, got %d; first difference at index %d: expected %r got %r"
                             % (len(exp), len(got), i, exp[i] if i < len(exp) else None, got[i] if i < len(got) else None)), info
        big = any(x >= 2 ** 31 for d in dents for x in d[:3])
        straddle = len(s.written) >= 2 and len(dents) >= 2 and case["device"]["cuts"] is not None
        info["nontrivial"] = straddle or big
        if straddle:
            info["classes"].append("record-straddles-packets")
        if len(dents) >= 50:
            info["classes"].append("50+entries")
        if not dents:
            info["classes"].append("empty-dir")
        info["sample"] = {"op": "list", "entries": len(dents), "first": exp[:2], "cuts": case["device"]["cuts"], "wrte_sizes": [len(w) for w in s.written[:8]], "frag": case["transport"]["frag"]}
    else:
        exp = tuple(case["device"]["stats"][path])
        if tuple(res["ok"]) != exp:
            return Violation("stat-wrong-triple", "expected %r got %r" % (exp, res["ok"])), info
        big = any(x >= 2 ** 31 for x in exp)
        info["nontrivial"] = big or len(s.written) >= 2
        info["sample"] = {"op": "stat", "triple": exp, "cuts": case["device"]["cuts"], "frag": case["transport"]["frag"]}
    if big:
        info["classes"].append("field>=2^31")
    if out.core.frag_reads:
        info["classes"].append("fragmented-reads")
    if case["transport"].get("frag_delay"):
        info["classes"].append("slow-link")
    reqs = [r for r in out.sim.sync_requests if r[0] == s.rid]
    if reqs != [(s.rid, op["op"].upper(), path)]:
        return Violation("wrong-request", repr(reqs)), info
    if not s.host_closed:
        return Violation("stream-not-closed", "%s returned but its stream (local %d) was never closed by the host" % (op["op"], s.lid)), info
    if s.okays_from_host != len(s.written):
        return Violation("write-not-acknowledged-exactly-once", "%d device WRTEs, %d host OKAYs" % (len(s.written), s.okays_from_host)), info
    return None, info


def replay(part, case):
    return check_case(case)[0]


def run(tier, seed):
    t0 = time.time()
    n = 6000 if tier == "quick" else 100000
    col = harness.corpus_part(ID, "main", check_case)
    col.merge(harness.hypothesis_part("main", cases(), check_case, n, seed, shrink=(tier == "thorough")))
    return harness.finish(ID, tier, seed, LEVEL, col, RULE, ASSUMPTIONS, t0)
