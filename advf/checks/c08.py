"""C08 -- pull writes exactly the device file, for every device chunking."""
import time

from hypothesis import strategies as st

from .. import harness, runner, scenario as sc, common, wire
from ..harness import Violation
from ..sim import make_content

ID = "C08"
LEVEL = "exploration"
RULE = ("Hypothesis-generated pulls: content size {0,1,boundaries around 64 KiB, multi-MiB} U ints; DATA record size sequences (zero-length records interspersed, all-max, all-1, "
        "random, cyclic); WRTE boundaries over the sync byte stream (one packet per record; fixed tiny sizes 1..7 that cut every 8-byte header; "
        "record length +/- delta so that the cut drifts through every header offset; random); read-fragmentation tape; destination path/BytesIO; "
        "callback none/recording/raising Exception/raising a BaseException subclass/re-entering the device with stat(); both APIs. Oracle: destination bytes == simulator file content; RECV request, one OKAY per device WRTE, "
        "exactly one host CLSE; callback counts sum to size. Non-trivial: a sync header split across WRTEs or >= 2 DATA records. Distinct = case hash.")
ASSUMPTIONS = ["device simulator sync service per AOSP SYNC.TXT", "in-memory transport, virtual clock"]


@st.composite
def cases(draw):
    arm = draw(st.sampled_from(["record", "tiny", "drift", "random", "random"]))
    if arm == "tiny":
        n = draw(st.integers(0, 600))
        recv = draw(st.lists(st.integers(1, 40), min_size=1, max_size=4))
        cuts = [draw(st.integers(1, 9))]
    elif arm == "drift":
        r = draw(st.sampled_from([1, 5, 100, 4096, 65536]))
        n = draw(st.integers(0, 40)) * r + draw(st.integers(0, r))
        n = min(n, 700000)
        recv = [r]
        cuts = [max(1, r + 8 + draw(st.integers(-7, 7)))]
    else:
        n = draw(st.one_of(st.sampled_from([0, 1, 65535, 65536, 65537, 131072, 1048576, 3 * 1048576 + 1]), st.integers(0, 5000), st.integers(0, 400000)))
        recv = draw(st.one_of(st.just([65536]), st.just([1]), st.lists(st.one_of(st.sampled_from([1, 2, 8, 65535, 65536]), st.integers(1, 65536)), min_size=1, max_size=6)))
        cuts = None if arm == "record" else draw(st.lists(st.one_of(st.sampled_from([1, 7, 8, 9, 65544, 1048576]), st.integers(1, 300000)), min_size=1, max_size=6))
    # keep the number of records / packets bounded
    if n // min(recv) > 1500:
        recv = [max(x, n // 1500 + 1) for x in recv]
    nrec = n // min(recv) + 2
    total = n + 8 * nrec
    if cuts and total // min(cuts) > 1500:
        cuts = [max(x, total // 1500 + 1) for x in cuts]
    path = draw(sc.device_path(300))
    frag = sc.tame_frag(draw(sc.frag_tape()), total, budget=20000)
    return {
        "api": draw(st.sampled_from(["sync", "async"])),
        "device": {"fs": {path.encode("utf8"): {"content": {"pat": draw(st.binary(min_size=1, max_size=9)), "n": n}, "mode": 0o100644, "mtime": 7}},
                   "recv_sizes": recv, "cuts": cuts, "rids": draw(sc.rid_list(4)), "zero_clse_reply": draw(st.booleans()),
                   "recv_empty_at": draw(st.one_of(st.just([]), st.just([]), st.lists(st.integers(0, 6), max_size=3))),
                   "lag": draw(st.lists(st.integers(0, 2), max_size=2))},
        "dev_tape": draw(sc.dev_tape(10)),
        "transport": {"flavour": draw(sc.flavour()), "frag": frag, "wcap": draw(sc.wcap_tape(total // 8 + 2000, p_none=0.7))},
        "connect": {},
        "ops": [{"op": "pull", "path": path, "dest": draw(st.sampled_from(["bytesio", "file"])), "cb": draw(st.sampled_from([None, None, "rec", "raise", "raise-base", "reenter"]))}],
        "_arm": arm,
    }


def header_split(written):
    """Did a WRTE boundary fall inside an 8-byte sync record header?"""
    import bisect
    stream = b"".join(written)
    starts = []
    off = 0
    while off + 8 <= len(stream):
        starts.append(off)
        id_ = int.from_bytes(stream[off:off + 4], "little")
        ln = int.from_bytes(stream[off + 4:off + 8], "little")
        off += 8 + (ln if id_ in (wire.ID_DATA, wire.ID_FAIL) else 0)
    pos = 0
    for w in written[:-1]:
        pos += len(w)
        i = bisect.bisect_left(starts, pos) - 1
        if i >= 0 and starts[i] < pos < starts[i] + 8:
            return True
    return False


def check_case(case):
    out = runner.run(case)
    op = case["ops"][0]
    res = out.results[-1]
    info = {"classes": [out.api, "arm:" + case.get("_arm", "?"), "dest:" + op["dest"], "cb:%s" % op["cb"]]}
    if out.watchdog:
        info["inconclusive"] = True
        return None, info
    path = op["path"].encode("utf8")
    content = make_content(case["device"]["fs"][path]["content"])
    if "exc" in res:
        return Violation("unexpected-exception", "%s: %s" % (res["exc"], res["msg"])), info
    got = res["ok"]
    if got != content:
        return Violation("pull-wrong-bytes", "expected %d bytes, destination has %s bytes; first difference at %s"
                         % (len(content), None if got is None else len(got), None if got is None else _first_diff(content, got))), info
    streams = out.op_streams[-1]
    for r_ in out.extra.get("reenter_results", []):
        if tuple(r_) != (0, 0, 0):
            return Violation("reentrant-stat-wrong", "stat() issued from inside the progress callback returned %r" % (r_,)), info
    main = streams[0]         # pull opens its own stream first; a stat stream (callback) comes second
    reqs = [r for r in out.sim.sync_requests if r[0] == main.rid]
    if reqs != [(main.rid, "RECV", path)]:
        return Violation("pull-wrong-request", "sync requests on the pull stream: %r" % (reqs,)), info
    for s in streams:
        if s.okays_from_host != len(s.written):
            return Violation("write-not-acknowledged-exactly-once", "stream local %d: %d device WRTEs, %d host OKAYs" % (s.lid, len(s.written), s.okays_from_host)), info
        if not s.host_closed:
            return Violation("stream-not-closed", "pull returned but stream local %d was never closed by the host" % s.lid), info
    nclse = sum(1 for p in out.host_packets() if p.cmd == wire.A_CLSE and p.arg0 == main.lid)
    if nclse != 1:
        return Violation("close-count", "%d CLSE packets on the pull stream" % nclse), info
    if op["cb"]:
        recs = out.cb_records.get(len(out.results) - 1, [])
        if any(not isinstance(n, int) or isinstance(n, bool) for _, n, _ in recs):
            return Violation("callback-byte-counts", "callback received a byte count that is not an int: %r" % ([n for _, n, _ in recs][:4],)), info
        if sum(n for _, n, _ in recs) != len(content):
            return Violation("callback-byte-counts", "callback saw %d bytes, file has %d" % (sum(n for _, n, _ in recs), len(content))), info
        if any(t != len(content) or p != op["path"] for p, _, t in recs):
            return Violation("callback-args", repr(recs[:3])), info
    nrec = b"".join(main.written).count(b"DATA") if len(content) < 100000 else 2
    split = header_split(main.written) if sum(len(w) for w in main.written) < 2000000 else False
    info["nontrivial"] = split or len(content) > min(case["device"]["recv_sizes"])
    if split:
        info["classes"].append("header-split")
    if out.core.frag_reads:
        info["classes"].append("fragmented-reads")
    if case["device"].get("recv_empty_at"):
        info["classes"].append("zero-length-DATA-record")
    if len(content) >= 1048576:
        info["classes"].append("MiB+")
    info["sample"] = {"n": len(content), "recv_sizes": case["device"]["recv_sizes"], "cuts": case["device"]["cuts"], "wrte_sizes": [len(w) for w in main.written[:10]],
                      "frag": case["transport"]["frag"], "dest": op["dest"], "cb": op["cb"], "api": out.api}
    return None, info


def _first_diff(a, b):
    n = min(len(a), len(b))
    for i in range(n):
        if a[i] != b[i]:
            return i
    return n


def replay(part, case):
    return check_case(case)[0]


def run(tier, seed):
    t0 = time.time()
    n = 4000 if tier == "quick" else 70000
    col = harness.corpus_part(ID, "main", check_case)
    col.merge(harness.hypothesis_part("main", cases(), check_case, n, seed, shrink=(tier == "thorough")))
    return harness.finish(ID, tier, seed, LEVEL, col, RULE, ASSUMPTIONS, t0)
