"""C10 -- device-side sync failures surface as the documented exception with the reason."""
import time

from hypothesis import strategies as st

from .. import harness, runner, scenario as sc, wire, common
from ..harness import Violation

ID = "C10"
LEVEL = "exploration"
RULE = ("Hypothesis-generated rejections: pull -> FAIL(reason) after j DATA records (0, middle, last); push -> FAIL at {SEND, after the k-th DATA record, DONE} x "
        "file sizes (single- and multi-WRTE at the drawn maxdata) x lag of the FAIL WRTE behind 0..3 later host packets (so it may overtake or trail OKAYs) x packet-order tape; "
        "reason = arbitrary bytes 0..255 (UTF-8 and not), cut anywhere into WRTEs; invalid-status cases (a known sync id that is illegal at that point, as a bare 8-byte header or as a complete 16-byte STAT record); both APIs. "
        "Oracle: pull -> AdbCommandFailureException, push -> PushFailedError, reason recoverable from the exception; invalid status -> InvalidResponseError; never a normal "
        "return; never a timeout once the device has reported. Non-trivial: FAIL not the first reply, or lag > 0, or reason split across WRTEs. Distinct = case hash.")
ASSUMPTIONS = ["device simulator: OKAY for a host WRTE is immediate, service output may lag (AOSP adbd handle_packet vs. service thread)", "in-memory transport, virtual clock"]

KNOWN_IDS = [wire.ID_STAT, wire.ID_LIST, wire.ID_SEND, wire.ID_RECV, wire.ID_DENT, wire.ID_DONE, wire.ID_DATA, wire.ID_OKAY, wire.ID_QUIT]


def reasons():
    return st.one_of(
        st.sampled_from([b"No space left on device", b"Permission denied", b"", b"x", "ü: 失败".encode(), b"\xff\xfe bad \x80", b"r" * 255]),
        st.binary(min_size=0, max_size=255),
    )


@st.composite
def cases(draw):
    kind = draw(st.sampled_from(["pull-fail", "push-fail", "push-fail", "push-fail", "pull-bad", "push-bad"]))
    m = draw(sc.maxdata())
    c = sc.chunk_size_for(m)
    reason = draw(reasons())
    path = draw(sc.device_path(100))
    dev = {"maxdata": m, "rids": draw(sc.rid_list(3)),
           "cuts": draw(st.one_of(st.none(), st.lists(st.integers(1, 12), min_size=1, max_size=3), st.lists(st.integers(1, 300), min_size=1, max_size=4))),
           "zero_clse_reply": draw(st.booleans())}
    if kind.startswith("pull"):
        nrec = draw(st.integers(0, 5))
        r = draw(st.sampled_from([1, 10, 4096, 65536]))
        n = nrec * r
        dev["fs"] = {path.encode("utf8"): {"content": {"pat": draw(st.binary(min_size=1, max_size=4)), "n": n}}}
        dev["recv_sizes"] = [r]
        j = draw(st.sampled_from([0, nrec // 2, nrec]))
        if kind == "pull-fail":
            dev["recv_fail"] = {"after": j, "reason": reason}
        else:
            dev["recv_bad_status"] = {"after": j, "id": draw(st.sampled_from([i for i in KNOWN_IDS if i not in (wire.ID_DATA, wire.ID_DONE)]))}
            if draw(st.sampled_from([False, False, True])):
                # a complete, well-formed 16-byte STAT record (as a confused device would send), not just an 8-byte header
                dev["recv_bad_status"] = {"after": j, "id": wire.ID_STAT, "raw": wire.sync_stat(draw(st.sampled_from([0o100644, 1, 0o40755, 2 ** 32 - 1])), draw(sc.u32()), draw(sc.u32()))}
        if dev["cuts"] and (n + 300) // min(dev["cuts"]) > 1500:
            dev["cuts"] = [max(x, (n + 300) // 1500 + 1) for x in dev["cuts"]]
        dev["lag"] = draw(st.lists(st.integers(0, 3), max_size=2))
        op = {"op": "pull", "path": path, "dest": "bytesio", "cb": draw(st.sampled_from([None, None, "rec"]))}
    else:
        size = draw(st.one_of(st.sampled_from([0, 1, c, c + 1, 2 * c, m, m + 1, 2 * m + 1, 3 * m]), st.integers(0, 3 * m)))
        size = min(size, 2 * 1048576)
        nchunks = (size + c - 1) // c
        if kind == "push-fail":
            at = draw(st.sampled_from(["send", "data", "data", "done"]))
            pf = {"at": at, "reason": reason}
            if at == "data":
                pf["k"] = draw(st.sampled_from(sorted(set([0, nchunks // 2, max(0, nchunks - 1)]))))
            dev["push_fail"] = pf
        else:
            dev["push_bad_status"] = {"id": draw(st.sampled_from([i for i in KNOWN_IDS if i != wire.ID_OKAY]))}
            if draw(st.sampled_from([False, False, True])):
                dev["push_bad_status"] = {"id": wire.ID_STAT, "raw": wire.sync_stat(draw(st.sampled_from([0o100644, 1, 0o40755, 2 ** 32 - 1])), draw(sc.u32()), draw(sc.u32()))}
        dev["lag"] = draw(st.one_of(st.just([]), st.lists(st.integers(0, 3), min_size=1, max_size=3)))
        op = {"op": "push", "src": {"kind": "bytesio", "content": {"pat": draw(st.binary(min_size=1, max_size=4)), "n": size}}, "path": path,
              "mtime": draw(st.sampled_from([0, 12345])), "cb": draw(st.sampled_from([None, None, "rec"]))}
    return {"api": draw(st.sampled_from(["sync", "async"])), "device": dev, "dev_tape": draw(sc.dev_tape(16)),
            "transport": {"flavour": draw(sc.flavour()), "wcap": draw(sc.wcap_tape(2000 + (op["src"]["content"]["n"] if op["op"] == "push" else 0), p_none=0.6))},
            "connect": {}, "ops": [op], "_kind": kind}


def reason_recoverable(exc, reason):
    for a in exc.args:
        if isinstance(a, (bytes, bytearray)) and bytes(a) == reason:
            return True
    text = reason.decode("utf-8", "backslashreplace")
    s = str(exc)
    if text in s:
        return True
    return repr(reason)[2:-1] in s or repr(bytearray(reason)) in s


def fail_fully_delivered(out, reason):
    rec = wire.sync_fail(reason)
    for s in out.sim.streams:
        if rec in b"".join(s.written):
            return True
    return False


def check_case(case):
    out = runner.run(case)
    kind = case["_kind"] if "_kind" in case else _kind_of(case)
    op = case["ops"][0]
    res = out.results[-1]
    exc = out.excs[-1]
    info = {"classes": [out.api, kind]}
    if out.watchdog:
        return Violation("non-termination", "operation budget exhausted: %s" % (out.watchdog,)), info
    dev = case["device"]
    if "exc" not in res:
        return Violation("returned-as-if-succeeded", "%s returned normally although the device answered %s" % (op["op"], kind)), info
    if kind in ("pull-fail", "push-fail"):
        want = "AdbCommandFailureException" if kind == "pull-fail" else "PushFailedError"
        reason = (dev.get("recv_fail") or dev.get("push_fail"))["reason"]
        if res["exc"] != want:
            delivered = fail_fully_delivered(out, reason)
            rule = "timeout-instead-of-failure" if common.is_timeout(res) else "wrong-exception-type"
            return Violation(rule, "expected %s, got %s: %s (FAIL record completely delivered to the host: %s)" % (want, res["exc"], res["msg"], delivered)), info
        if not reason_recoverable(exc, reason):
            return Violation("reason-lost", "device reason %r is not recoverable from %s%r" % (reason, res["exc"], exc.args)), info
    else:
        if res["exc"] != "InvalidResponseError":
            return Violation("invalid-status-wrong-exception", "expected InvalidResponseError, got %s: %s" % (res["exc"], res["msg"])), info
    s = out.op_streams[-1][0]
    lagged = any(dev.get("lag") or [])
    first_reply = True
    if kind == "pull-fail":
        first_reply = dev["recv_fail"]["after"] == 0 or dev["fs"][op["path"].encode("utf8")]["content"]["n"] == 0
    elif kind == "push-fail":
        first_reply = dev["push_fail"]["at"] == "send"
    nwr = len(s.host_writes)
    info["nontrivial"] = (not first_reply) or lagged or len(s.written) >= 2
    if lagged:
        info["classes"].append("lag>0")
    if not first_reply:
        info["classes"].append("fail-not-first")
    if nwr >= 3:
        info["classes"].append("multi-WRTE-push")
    if kind == "push-fail":
        info["classes"].append("at:" + dev["push_fail"]["at"])
        # did the FAIL overtake an OKAY (arrive before the OKAY of a later host WRTE)?
        seq = [(p.cmd, p.data[:4]) for t, p, rid in out.sim.device_log if rid == s.rid]
        idx = next((i for i, (c, d) in enumerate(seq) if c == wire.A_WRTE), None)
        if idx is not None and any(c == wire.A_OKAY for c, _ in seq[idx + 1:]):
            info["classes"].append("FAIL-before-later-OKAY")
    info["sample"] = {"kind": kind, "op": op, "lag": dev.get("lag"), "plan": dev.get("push_fail") or dev.get("recv_fail") or dev.get("recv_bad_status") or dev.get("push_bad_status"),
                      "maxdata": dev["maxdata"], "exc": res["exc"], "msg": res["msg"][:80], "api": out.api}
    return None, info


def _kind_of(case):
    d = case["device"]
    if "recv_fail" in d:
        return "pull-fail"
    if "push_fail" in d:
        return "push-fail"
    if "recv_bad_status" in d:
        return "pull-bad"
    return "push-bad"


def replay(part, case):
    return check_case(case)[0]


def run(tier, seed):
    t0 = time.time()
    n = 6000 if tier == "quick" else 100000
    col = harness.corpus_part(ID, "main", check_case)
    col.merge(harness.hypothesis_part("main", cases(), check_case, n, seed, shrink=(tier == "thorough")))
    return harness.finish(ID, tier, seed, LEVEL, col, RULE, ASSUMPTIONS, t0)
