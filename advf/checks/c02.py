"""C02 -- every packet the host emits is a well-formed ADB message."""
import time

from hypothesis import strategies as st

from .. import env, harness, runner, scenario as sc, wire, common
from ..harness import Violation

L = env.lib()

ID = "C02"
LEVEL = "exploration"
RULE = ("(a) direct: Hypothesis-generated (command in the 7 protocol commands, arg0, arg1 from 32-bit boundary values U integers, payload "
        "bytes/bytearray of size {0,1,2,255,256,4096,65536,1 MiB} U small, contents incl. all-0xFF): AdbMessage.pack()+data is decoded by the "
        "independent codec and all six header words compared with values computed from AOSP literals; unpack(pack()) returns the five fields. "
        "(b) stream: generated sessions (all operations, auth paths, maxdata values); the complete bulk_write byte stream must decode with no "
        "framing error and no trailing partial frame. Non-trivial: (a) non-empty payload or an arg >= 2^31, (b) >= 3 host packets. Distinct = case hash.")
ASSUMPTIONS = ["command words and header layout taken from AOSP adb.h as numeric literals in advf/wire.py"]

CMDS = [(b"SYNC", wire.A_SYNC), (b"CNXN", wire.A_CNXN), (b"AUTH", wire.A_AUTH), (b"OPEN", wire.A_OPEN),
        (b"OKAY", wire.A_OKAY), (b"CLSE", wire.A_CLSE), (b"WRTE", wire.A_WRTE)]


def payloads():
    sizes = st.one_of(st.sampled_from([0, 1, 2, 255, 256, 4096, 65536, 1048576]), st.integers(0, 300))
    filler = st.one_of(st.just(b"\xff"), st.just(b"\x00"), st.binary(min_size=1, max_size=7))
    built = st.builds(lambda f, n: (f * (n // len(f) + 1))[:n], filler, sizes)
    return st.one_of(built, st.binary(max_size=64))


def direct_cases():
    return st.fixed_dictionaries({
        "cmd": st.integers(0, 6), "arg0": sc.u32(), "arg1": sc.u32(), "data": payloads(), "as_bytearray": st.booleans(),
    })


def check_direct(case):
    name, word = CMDS[case["cmd"]]
    data = bytearray(case["data"]) if case["as_bytearray"] else bytes(case["data"])
    info = {"classes": [name.decode(), "bytearray" if case["as_bytearray"] else "bytes"],
            "nontrivial": len(data) > 0 or case["arg0"] >= 2 ** 31 or case["arg1"] >= 2 ** 31}
    info["sample"] = {"cmd": name, "arg0": case["arg0"], "arg1": case["arg1"], "len": len(data), "head": bytes(data[:8])}
    try:
        msg = L.adb_message.AdbMessage(name, case["arg0"], case["arg1"], data)
        packed = msg.pack()
    except Exception as e:  # noqa
        return Violation("pack-raised", "%s: %s for %r" % (type(e).__name__, e, info["sample"])), info
    if len(packed) != 24:
        return Violation("header-not-24-bytes", "len=%d" % len(packed)), info
    fields = wire.HEADER.unpack(packed)
    exp = (word, case["arg0"], case["arg1"], len(data), sum(bytes(data)) & 0xFFFFFFFF, word ^ 0xFFFFFFFF)
    if fields != exp:
        names = ["command", "arg0", "arg1", "data_length", "data_check", "magic"]
        bad = [n for n, a, b in zip(names, fields, exp) if a != b]
        return Violation("header-field-mismatch:" + ",".join(bad), "packed %r expected %r for %r" % (fields, exp, info["sample"])), info
    try:
        pk = wire.StreamDecoder(max_payload=1 << 26).feed(packed + bytes(msg.data))
    except wire.FramingError as e:
        return Violation("independent-decoder-rejects", str(e)), info
    if len(pk) != 1 or pk[0].data != bytes(data):
        return Violation("independent-decoder-mismatch", repr(pk)), info
    un = L.adb_message.unpack(packed)
    if tuple(un) != exp[:5]:
        return Violation("unpack-roundtrip", "unpack(pack()) = %r, expected %r" % (un, exp[:5])), info
    if L.adb_message.checksum(data) != exp[4]:
        return Violation("checksum-function", "checksum()=%r expected %r" % (L.adb_message.checksum(data), exp[4])), info
    return None, info


def stream_cases():
    @st.composite
    def gen(draw):
        case = draw(sc.session(max_ops=4, with_wcap=True))
        mode = draw(st.sampled_from(["none", "none", "key", "pubkey"]))
        if mode != "none":
            nkeys = draw(st.integers(1, 3))
            keys = [{"tag": "k%d" % i, "pub": draw(st.sampled_from(["str", "bytes"]))} for i in range(nkeys)]
            auth = {"mode": mode}
            if mode == "key":
                auth["accept"] = "k%d" % draw(st.integers(0, nkeys - 1))
            case["device"]["auth"] = auth
            case["connect"] = {"keys": keys}
        return case
    return gen()


def check_stream(case):
    out = runner.run(case)
    info = {"classes": [out.api, "auth:" + (case["device"].get("auth") or {}).get("mode", "none")]}
    if out.watchdog:
        info["inconclusive"] = True
        return None, info
    v = common.generic_violation(out, case, framing=True)
    if v is not None:
        return v, info
    for sim in out.sims:
        if sim.decoder.pending:
            return Violation("trailing-partial-frame", "%d bytes of an incomplete frame after the last operation" % sim.decoder.pending), info
        if sim.decoder.total != sim.bytes_in:
            raise env.HarnessError("decoder accounting")
    n = len(out.host_packets())
    info["nontrivial"] = n >= 3
    info["sample"] = {"ops": [o["op"] for o in out.ops], "host_packets": n, "bytes": sum(s.bytes_in for s in out.sims),
                      "first": [p.brief() for p in out.host_packets()[:5]]}
    return None, info


def check_concurrent(case):
    """Framing of the byte stream produced by several threads / tasks writing to one transport."""
    from .. import conc
    r = conc.run_concurrent(case, case.get("sched") or (), trace=case.get("trace"))
    info = {"classes": [case["api"], "concurrent"], "nontrivial": r.switches >= 1}
    for sim in r.out.sims:
        if sim.framing_error is not None:
            return Violation("host-stream-undecodable", "%d concurrent operations, %d scheduler switches: %s" % (len(case["ops"]), r.switches, sim.framing_error)), info
    info["sample"] = {"ops": [o["op"] for o in case["ops"]], "switches": r.switches, "steps": r.steps, "host_packets": sum(len(s_.host_log) for s_ in r.out.sims), "api": case["api"]}
    return None, info


def exact_size_cases():
    """Sessions whose OPEN / WRTE payloads are exactly k*64 KiB (+-1) bytes long."""
    out = []
    path, mode = "/p", 0o100770
    slen = len(("%s,%d" % (path, mode)).encode())
    for api in ("sync", "async"):
        for k in (1, 2, 3):
            for delta in (-1, 0, 1):
                cmd = "x" * (65536 * k - 7 + delta)
                out.append({"api": api, "device": {"maxdata": 1048576, "services": {}}, "transport": {"flavour": "raises"}, "connect": {},
                            "ops": [{"op": "shell", "cmd": cmd, "decode": False}, {"op": "stat", "path": "/after"}]})
                # one WRTE carrying SEND + k DATA records + DONE of exactly k*64 KiB (+delta) bytes
                n = 65536 * k + delta - (8 + slen) - 8 * k - 8
                out.append({"api": api, "device": {"maxdata": 1048576, "services": {}}, "transport": {"flavour": "raises"}, "connect": {},
                            "ops": [{"op": "push", "src": {"kind": "bytesio", "content": {"pat": b"\x5a\xa5", "n": n}}, "path": path, "mode": mode, "mtime": 3},
                                    {"op": "stat", "path": "/after"}]})
    return out


def big_cases():
    """>= 16.9 MiB of 0xFF: the byte sum passes 2^32 (checksum wrap)."""
    n = 2 ** 32 // 255 + 4096
    return [{"cmd": 6, "arg0": 1, "arg1": 2, "data": b"\xff" * n, "as_bytearray": False},
            {"cmd": 6, "arg0": 1, "arg1": 2, "data": b"\xff" * (n + 1), "as_bytearray": True}]


def replay(part, case):
    if part == "concurrent":
        return check_concurrent(case)[0]
    return (check_direct if part == "direct" else check_stream)(case)[0]


def run(tier, seed):
    t0 = time.time()
    quick = tier == "quick"
    col = harness.corpus_part(ID, "direct", check_direct)
    col.merge(harness.corpus_part(ID, "stream", check_stream))
    col.merge(harness.hypothesis_part("direct", direct_cases(), check_direct, 8000 if quick else 200000, seed, shrink=not quick))
    col.merge(harness.hypothesis_part("stream", stream_cases(), check_stream, 2500 if quick else 60000, seed, shrink=not quick))
    col.merge(harness.enumeration_part("stream", lambda sh, n: [c for i, c in enumerate(exact_size_cases()) if i % n == sh], check_stream,
                                       hash_of=lambda c: {"api": c["api"], "op": c["ops"][0]["op"], "n": len(c["ops"][0].get("cmd", "")) or c["ops"][0]["src"]["content"]["n"]}))
    from . import c06
    col.merge(harness.hypothesis_part("concurrent", c06.workloads(), check_concurrent, 2500 if quick else 60000, seed, shrink=not quick))
    if not quick:
        col.merge(harness.enumeration_part("direct", lambda sh, n: [c for i, c in enumerate(big_cases()) if i % n == sh], check_direct,
                                           hash_of=lambda c: {"big": len(c["data"]), "ba": c["as_bytearray"]}))
    return harness.finish(ID, tier, seed, LEVEL, col, RULE, ASSUMPTIONS, t0)
