"""C16 -- the async API is behaviourally identical to the sync API (differential)."""
import time

from hypothesis import strategies as st

from .. import env, harness, runner, scenario as sc
from ..harness import Violation

ID = "C16"
LEVEL = "exploration"
RULE = ("Differential: every Hypothesis-generated scenario (operation sequences x model filesystem x device choice tape x maxdata x auth mode x read fragmentation x "
        "short-write capacities x optional transport fault at call index k x optional stall plan x optional corruption of one device packet (payload byte, checksum field, checksum field of a header-only packet, command word) x timeouts incl. timeout_s=0 x optional second connect()) is executed once through AdbDevice and once through AdbDeviceAsync "
        "against identical simulators. Oracle: equal host->device packet sequences, equal results, equal exception type names per operation, equal availability after every "
        "operation. A second part plays one generated peer script to TcpTransport and TcpTransportAsync over loopback (see C18). Non-trivial: >= 2 operations, or a fault/stall/auth plan. Distinct = case hash.")
ASSUMPTIONS = ["device decisions are indexed by device event, not by host read, so both runs face the same adversary", "in-memory transports; virtual clock"]

FAULT_KINDS = ["r_timeout", "r_reset", "eof", "r_short_raise", "r_short_eof", "w_pipe", "w_partial_raise", "w_timeout"]


@st.composite
def cases(draw):
    case = draw(sc.session(max_ops=5, with_frag=True, with_wcap=True))
    case.pop("api", None)
    plan = draw(st.sampled_from(["none", "none", "fault", "stall", "auth", "fail", "corrupt"]))
    if plan == "corrupt":
        case["transport"]["corrupt"] = {"k": draw(st.integers(0, 10)), "mode": draw(st.sampled_from(["byte", "hdr", "hdr-zero", "hdr-empty", "hdr-empty", "cmd"])),
                                        "pos": draw(st.integers(0, 3000)), "val": draw(st.integers(0, 2 ** 32 - 1)), "fix_magic": draw(st.booleans())}
    if plan == "fault":
        case["transport"]["faults"] = {str(draw(st.integers(0, 120))): draw(st.sampled_from(FAULT_KINDS))}
    elif plan == "stall":
        case["transport"]["stall"] = {"at": draw(st.integers(0, 25)), "kind": draw(st.sampled_from(["silence", "eof", "trickle", "foreign"])), "delta": 0.05}
        case["transport"]["max_calls"] = 60000
    elif plan == "auth":
        nk = draw(st.integers(0, 3))
        mode = draw(st.sampled_from(["key", "pubkey", "never"]))
        auth = {"mode": mode}
        if mode == "key":
            auth["accept"] = "k%d" % draw(st.integers(0, 3))
        case["device"]["auth"] = auth
        case["connect"] = {"keys": [{"tag": "k%d" % i, "pub": draw(st.sampled_from(["str", "bytes"]))} for i in range(nk)], "callback": draw(st.booleans()),
                           "auth_timeout_s": 0.5}
    elif plan == "fail":
        which = draw(st.sampled_from(["push_fail", "recv_fail", "push_bad_status", "push_withhold"]))
        if which == "push_fail":
            case["device"]["push_fail"] = {"at": draw(st.sampled_from(["send", "data", "done"])), "k": draw(st.integers(0, 3)), "reason": draw(st.binary(max_size=30))}
        elif which == "recv_fail":
            case["device"]["recv_fail"] = {"after": draw(st.integers(0, 3)), "reason": draw(st.binary(max_size=30))}
        elif which == "push_bad_status":
            case["device"]["push_bad_status"] = {"id": 0x41544144}
        else:
            case["device"]["push_withhold"] = True
    if draw(st.booleans()):
        tt = draw(st.sampled_from([None, 0.5, 3.0]))
        rt = draw(st.sampled_from([0.5, 10.0, -1, 0]))
        for o in case["ops"]:
            if tt is not None:
                o["transport_timeout_s"] = tt
            o["read_timeout_s"] = rt
    total = draw(st.sampled_from([None, None, 0, 0.5, 30]))
    if total is not None:
        for o in case["ops"]:
            if o["op"] in ("shell", "exec_out", "root"):
                o["timeout_s"] = total          # whole-command limit (0 is a legal value: "already over")
    if draw(st.sampled_from([False, False, True])):
        case["ops"].insert(draw(st.integers(0, len(case["ops"]))), {"op": "close"})
    if draw(st.sampled_from([False, False, True])):
        # a second connect() on the same object (it may fail: fault plans, or a device that now demands authentication)
        c2 = dict(case.get("connect") or {}, op="connect")
        if draw(st.booleans()):
            c2["keys"] = None
            case["device"].setdefault("auth_after_first", True)
        case["ops"].insert(draw(st.integers(0, len(case["ops"]))), c2)
    for o in case["ops"]:
        if o["op"] == "pull":
            # "badpath": a local path that cannot be opened for writing (its directory does not exist)
            o["dest"] = draw(st.sampled_from(["bytesio", "file", "file", "badpath"]))
        elif o["op"] == "push" and draw(st.sampled_from([False] * 7 + [True])):
            o["src"] = {"kind": "missing"}          # a local source path that does not exist
    case["_plan"] = plan
    return case


def norm(res):
    return {"exc": res["exc"]} if "exc" in res else {"ok": res["ok"]}


def check_case(case):
    o_s = runner.run(case, async_=False)
    o_a = runner.run(case, async_=True)
    plan = case.get("_plan") or _plan_of(case)
    info = {"classes": ["plan:" + plan]}
    if bool(o_s.watchdog) != bool(o_a.watchdog):
        return Violation("termination-differs", "sync watchdog=%r async watchdog=%r" % (o_s.watchdog, o_a.watchdog)), info
    if o_s.watchdog:
        info["inconclusive"] = True
        return None, info
    rs, ra = [norm(r) for r in o_s.results], [norm(r) for r in o_a.results]
    if rs != ra:
        k = next((i for i, (a, b) in enumerate(zip(rs, ra)) if a != b), min(len(rs), len(ra)))
        return Violation("results-differ", "op %d %r:\n sync  -> %s\n async -> %s" % (k, o_s.ops[k].get("op") if k < len(o_s.ops) else None,
                                                                                  _s(o_s.results[k]) if k < len(rs) else None, _s(o_a.results[k]) if k < len(ra) else None)), info
    hs = [(p.cmd, p.arg0, p.arg1, p.data) for p in o_s.host_packets()]
    ha = [(p.cmd, p.arg0, p.arg1, p.data) for p in o_a.host_packets()]
    if hs != ha:
        k = next((i for i, (a, b) in enumerate(zip(hs, ha)) if a != b), min(len(hs), len(ha)))
        return Violation("host-packets-differ", "packet %d: sync %s / async %s (totals %d / %d)" % (k, o_s.host_packets()[k].brief() if k < len(hs) else None,
                                                                                                 o_a.host_packets()[k].brief() if k < len(ha) else None, len(hs), len(ha))), info
    if sum(s.bytes_in for s in o_s.sims) != sum(s.bytes_in for s in o_a.sims):
        return Violation("host-bytes-differ", "sync wrote %d bytes, async %d" % (sum(s.bytes_in for s in o_s.sims), sum(s.bytes_in for s in o_a.sims))), info
    if o_s.available_after != o_a.available_after:
        return Violation("availability-differs", "%r vs %r" % (o_s.available_after, o_a.available_after)), info
    if o_s.cb_records != o_a.cb_records:
        return Violation("callback-records-differ", "%r vs %r" % (list(o_s.cb_records.items())[:2], list(o_a.cb_records.items())[:2])), info
    info["nontrivial"] = len(case["ops"]) >= 2 or plan != "none"
    for r in o_s.results:
        if "exc" in r:
            info["classes"].append("raised:" + r["exc"])
    info["sample"] = {"ops": [o["op"] for o in case["ops"]], "plan": plan, "transport": {k: v for k, v in case["transport"].items() if k != "flavour"},
                      "results": [r.get("exc", "ok") for r in o_s.results]}
    return None, info


def _plan_of(case):
    t = case["transport"]
    if t.get("faults"):
        return "fault"
    if t.get("stall"):
        return "stall"
    if t.get("corrupt"):
        return "corrupt"
    if case["device"].get("auth"):
        return "auth"
    return "none"


def _s(x):
    r = repr(x)
    return r if len(r) < 300 else r[:300] + "..."


def replay(part, case):
    if part == "tcp":
        from . import c18
        return c18.check_pair(case)[0]
    return check_case(case)[0]


def run(tier, seed):
    t0 = time.time()
    quick = tier == "quick"
    col = harness.corpus_part(ID, "main", check_case)
    col.merge(harness.hypothesis_part("main", cases(), check_case, 4000 if quick else 100000, seed, shrink=not quick))
    try:
        from . import c18
    except ImportError:
        c18 = None
    if c18 is not None and hasattr(c18, "pair_part"):
        col.merge(c18.pair_part(ID, tier, seed))
    return harness.finish(ID, tier, seed, LEVEL, col, RULE, ASSUMPTIONS, t0)
