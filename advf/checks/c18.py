"""C18 -- TCP transports honour the transport contract on real sockets."""
import time

from .. import harness, sockcheck
from ..sockcheck import check_pair  # noqa (used by C16's replay)

ID = "C18"
LEVEL = "exploration"
RULE = ("Real loopback TCP. (a) Hypothesis-generated peer scripts (1-10 fragments of 1..70000 bytes with pauses 0..40 ms, request sizes 1..1 MiB, connect timeout None/1/5 s, "
        "SO_RCVBUF None/4 KiB/64 KiB, idle timeout 50..300 ms, optional close()+connect()) against TcpTransport and TcpTransportAsync: each bulk_read(n) returns <= n bytes; the concatenation of "
        "all reads == the peer's byte stream; a read with nothing pending raises TcpTimeoutException after >= 0.8*timeout of wall time and the data the peer sends afterwards arrives intact; "
        "bulk_write reaches the peer -- also 100 KB / 1 MiB written through SO_SNDBUF=4096 to a slow reader with SO_RCVBUF=4096: the bytes the transport reported as sent (looping over its returned counts) are exactly what the peer receives after close(); close(); close() is harmless; connect() after close() works. (b) generated whole sessions (connect, shell/list/stat/pull/push ...) through AdbDevice(TcpTransport) / "
        "AdbDeviceAsync(TcpTransportAsync) against a socket server running the device simulator (server-side fragmentation 1..64 KiB): results == the model's (== in-memory) results; also pushes of 64 KiB .. 3 MiB through 4 KiB socket buffers to a slow reader (each message leaves in many pieces): the content arrives intact. "
        "(c) AdbDeviceTcp / AdbDeviceTcpAsync constructed with default_transport_timeout_s in {0.3, 0.6} and a banner: connect() to a device that never answers times out like the in-memory session (after about the default timeout: between 0.8x and 3x+3 s, the upper bound confirmed by a second run; the alternative would be read_timeout_s = 8 s), the banner is announced, a healthy connect+shell works. "
        "Non-trivial: >= 2 reads (a) / >= 2 operations (b). A peer that stops reading for 3 s in the middle of a 1 MiB write through 4 KiB buffers: no single bulk_write(..., 0.3) call on a socket connected with a timeout lasts longer than 2.4 s (confirmed by a second run). Apart from that and (c) only lower time bounds are asserted; a wall-clock watchdog expiry is 'inconclusive'. Distinct = case hash.")
ASSUMPTIONS = ["kernel loopback TCP", "wall-clock: only lower bounds asserted (>= 0.8 * timeout)", "device simulator behind a socket for part (b)"]


def pair_part(check_id, tier, seed):
    return harness.hypothesis_part("tcp", sockcheck.peer_cases(), sockcheck.check_pair, 48 if tier == "quick" else 1600, seed)


def replay(part, case):
    if part == "session":
        return sockcheck.check_session(case)[0]
    if part == "socket":
        return sockcheck.check_push_case(case)[0]
    if part == "ctor":
        return sockcheck.check_ctor_case(case)[0]
    return sockcheck.check_transport(case)[0]


def run(tier, seed):
    t0 = time.time()
    quick = tier == "quick"
    col = harness.corpus_part(ID, "transport", sockcheck.check_transport)
    col.merge(harness.enumeration_part("transport", lambda sh, n: [c for i, c in enumerate(sockcheck.fixed_transport_cases()) if i % n == sh], sockcheck.check_transport,
                                       hash_of=lambda c: {k: v for k, v in c.items() if k not in ("frags", "tail")}))
    col.merge(harness.enumeration_part("ctor", lambda sh, n: [c for i, c in enumerate(sockcheck.ctor_cases()) if i % n == sh], sockcheck.check_ctor_case))
    col.merge(harness.hypothesis_part("transport", sockcheck.peer_cases(), sockcheck.check_transport, 128 if quick else 3200, seed))
    col.merge(harness.hypothesis_part("session", sockcheck.session_cases(), sockcheck.check_session, 96 if quick else 2400, seed))
    # sessions whose messages are far larger than the socket buffers (SO_SNDBUF = SO_RCVBUF = 4096, slow reader): every message goes out in many pieces
    col.merge(harness.hypothesis_part("socket", sockcheck.push_cases(), sockcheck.check_push_case, 16 if quick else 240, seed))
    return harness.finish(ID, tier, seed, LEVEL, col, RULE, ASSUMPTIONS, t0)
