"""C04 -- per-stream protocol conformance (ids, one OKAY per WRTE, stop-and-wait, CLSE)."""
import time

from hypothesis import strategies as st

from .. import harness, runner, scenario as sc, common
from ..harness import Violation

ID = "C04"
LEVEL = "exploration"
RULE = ("Hypothesis-generated sessions: 1-6 operations from {shell, exec_out, streaming_shell, root, list, stat, pull, push} x model "
        "filesystem x device choices (remote ids, WRTE cuts of sync replies, lag of sync replies behind later OKAYs, eager/strict/duplicate "
        "CLSE, CLSE(0,id) replies, packet order tape, device-side sync FAILs at SEND/k-th DATA/DONE/RECV, streaming_shell generators abandoned after k items, pull destinations that run out of space mid-transfer, slow commands whose output and CLSE arrive around a whole-command limit timeout_s, an OPEN answered only after its caller timed out followed by further operations, commands whose service string is maxdata-4..maxdata+3 bytes long); plus the same monitor over 2-3 concurrent operations under generated thread/task schedules (line-level preemption inside _open) x maxdata x both APIs. Oracle: protocol monitor inside the device model "
        "(AOSP protocol.txt stream rules) plus end-of-operation accounting per stream. Non-trivial: a stream with >=2 device or host "
        "WRTEs, or >=2 streams. Distinct = distinct case hash.")
ASSUMPTIONS = ["device simulator/monitor implements the stream rules of AOSP protocol.txt", "in-memory transport, virtual clock"]


def stream_accounting(out, case):
    """End-of-operation rules that need the operation's outcome."""
    for i, (op, res) in enumerate(zip(out.ops, out.results)):
        if "exc" in res:
            # whatever made the call fail: a device CLSE that was handed to the host while this call was running must have been answered
            t0, t1 = out.t_ops[i]
            for s in out.op_streams[i]:
                tc = getattr(s, "t_dev_clse", None)
                if tc is not None and t0 <= tc <= t1 and not s.host_closed and not getattr(s, "crossing_wrte", False) and op["op"] in ("shell", "exec_out", "root", "streaming_shell") and op.get("take") is None:
                    return Violation("device-close-not-answered", "op %d %r raised %s, but the device's CLSE for its stream (local %d) had been delivered to the host at t=%.3f and was never answered"
                                     % (i, op["op"], res["exc"], s.lid, tc - t0))
            continue
        if op.get("take") is not None:
            # the caller abandoned the generator: exactly the WRTEs that were delivered to it are acknowledged
            s = out.op_streams[i][0] if out.op_streams[i] else None
            delivered = len(res["ok"])
            if s is not None and s.okays_from_host != delivered:
                return Violation("write-not-acknowledged-exactly-once",
                                 "op %d streaming_shell: %d payloads were delivered to the caller before it abandoned the generator, but the host sent %d OKAYs on stream (local %d)"
                                 % (i, delivered, s.okays_from_host, s.lid))
            continue
        for s in out.op_streams[i]:
            if s.okays_from_host != len(s.written):
                return Violation("write-not-acknowledged-exactly-once",
                                 "op %d %r returned normally; stream (local %d, remote %d) got %d device WRTEs but %d host OKAYs"
                                 % (i, op["op"], s.lid, s.rid, len(s.written), s.okays_from_host))
            if s.dev_closed and not s.host_closed:
                return Violation("device-close-not-answered",
                                 "op %d %r returned normally; device closed stream (local %d, remote %d) but the host never sent CLSE" % (i, op["op"], s.lid, s.rid))
    return None


def check_case(case):
    out = runner.run(case)
    info = {"classes": [out.api]}
    if out.watchdog:
        info["inconclusive"] = True
        return None, info
    v = common.generic_violation(out, case, framing=True, protocol=True) or stream_accounting(out, case)
    if v is not None:
        return v, info
    streams = [s for sim in out.sims for s in sim.streams]
    multi_w = any(len(s.written) >= 2 or len(s.host_writes) >= 2 for s in streams)
    info["nontrivial"] = multi_w or len(streams) >= 2
    for o in out.ops[1:]:
        info["classes"].append(o["op"])
    if multi_w:
        info["classes"].append("multi-write-stream")
    if any(len(s.host_writes) >= 2 for s in streams):
        info["classes"].append("multi-host-write")
    if case["device"].get("zero_clse_reply"):
        info["classes"].append("clse0-reply")
    if case["device"].get("push_fail") or case["device"].get("recv_fail"):
        info["classes"].append("device-rejects")
    if any(o.get("take") for o in case["ops"]):
        info["classes"].append("abandoned-generator")
    if any(x for x in case["device"].get("lag") or []):
        info["classes"].append("lagging-replies")
    for r in out.results:
        if "exc" in r:
            info["classes"].append("raised:" + r["exc"])
    info["sample"] = {"ops": [dict(o) for o in case["ops"]], "maxdata": case["device"]["maxdata"], "rids": case["device"]["rids"][:4],
                      "cuts": case["device"]["cuts"], "host_packets": [p.brief() for p in out.host_packets()[:14]]}
    return None, info


def check_concurrent(case):
    """The same monitor over 2-3 operations running concurrently under a generated schedule (fresh ids, OKAY accounting, CLSE rules per stream)."""
    from .. import conc
    r = conc.run_concurrent(case, case.get("sched") or (), trace=case.get("trace") or "open")
    info = {"classes": [case["api"], "concurrent"], "nontrivial": r.switches >= 1}
    if r.deadlock or r.budget_exhausted:
        info["inconclusive"] = True       # deadlocks are C06's subject
        return None, info
    v = common.generic_violation(r.out, case, framing=True, protocol=True)
    info["sample"] = {"ops": [o["op"] for o in case["ops"]], "switches": r.switches, "steps": r.steps, "api": case["api"], "open_ids": [lid for _, lid, _, _ in r.out.sim.opens]}
    return v, info


def replay(part, case):
    if part == "concurrent":
        return check_concurrent(case)[0]
    return check_case(case)[0]


@st.composite
def cases(draw):
    case = draw(sc.session(max_ops=6, fail_plans=True))
    dev = case["device"]
    if draw(st.sampled_from([False] * 4 + [True])):
        # an OPEN that the device answers only after the caller's read timeout has run out; the operations after it use the same connection
        i = draw(st.integers(0, len(case["ops"])))
        cmd = "slow%d" % i
        dev.setdefault("open_delay", {})[("shell:" + cmd).encode()] = draw(st.sampled_from([0.5, 0.8, 3.0]))
        dev["services"][("shell:" + cmd).encode()] = [b"<late>"] * draw(st.integers(0, 2))
        case["ops"].insert(i, {"op": "shell", "cmd": cmd, "decode": False, "read_timeout_s": 0.3, "transport_timeout_s": 0.1})
    if draw(st.sampled_from([False] * 7 + [True])):
        # a command whose service string is about as long as the device's maxdata: the destination stays NUL-terminated
        m = dev["maxdata"]
        n = m + draw(st.integers(-4, 3)) - len(b"shell:")
        if 0 < n <= 70000:
            cmd = ("L" * n)
            dev["services"][b"shell:" + cmd.encode()] = [b"long-ok"]
            case["ops"].append({"op": "shell", "cmd": cmd, "decode": False})
    return case


def run(tier, seed):
    t0 = time.time()
    n = 5000 if tier == "quick" else 100000
    col = harness.corpus_part(ID, "main", check_case)
    col.merge(harness.hypothesis_part("main", cases(), check_case, n, seed, shrink=(tier == "thorough")))
    from . import c06
    col.merge(harness.hypothesis_part("concurrent", c06.workloads(), check_concurrent, 2000 if tier == "quick" else 40000, seed, shrink=(tier == "thorough")))
    return harness.finish(ID, tier, seed, LEVEL, col, RULE, ASSUMPTIONS, t0)
