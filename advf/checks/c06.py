"""C06 -- concurrent streams are isolated: no cross-talk, loss, duplication or deadlock."""
import time

from hypothesis import strategies as st

from .. import env, harness, runner, conc, expect, scenario as sc, common
from ..harness import Violation, Collector

L = env.lib()

ID = "C06"
LEVEL = "exploration"
RULE = ("Schedules are inputs: (a) Hypothesis-generated (2-3 concurrent operations from {shell/exec_out with 0..4 chunks, streaming_shell, stat, list, small pull, push of 0..9000 bytes}, scheduler choice tape or seeded whole-run pseudo-random schedule with switch probability 0.1-0.8, "
        "device packet-order tape, eager/strict CLSE, CLSE(0,id) replies, legacy packets addressed with a zero host id, transport flavour) under the cooperative THREAD scheduler (yield points: lock acquire/release, every transport call; also, in a third of the thread cases, every line of "
        "_AdbIOManager.read/send and the packet store, or every line of the filesync helpers) and the deterministic asyncio TASK scheduler; (b) complete preemption-bounded enumeration (<=1 preemption quick, <=2 thorough) over all yield points "
        "of 10 fixed workloads (two of them with a concurrent close(), judged for deadlock/wrong data only) x 2 device tapes, threads and tasks; (c) two streaming_shell generators advanced alternately in one thread; (d) two device objects (two simulators) used alternately by one thread, with suspended generators, whole commands and a reconnect of the other device in between. Oracle: each operation's result equals the model's value (what it "
        "returns alone); no deadlock (no runnable worker) and no step-budget exhaustion. A run whose only deviations are timeouts and in which the put-observer saw a live stream's CLSE discarded is counted "
        "as known finding K1. Non-trivial: >= 1 packet was read by a worker that did not own it. Distinct = case hash / (workload, plan).")
ASSUMPTIONS = ["scheduler yield points: lock acquire/release and transport calls (plus traced lines in the thorough tier); switches inside C calls are not modelled",
               "asyncio: uncontended Lock.acquire does not suspend, contended acquisition is FIFO", "device simulator"]

FS = {b"/f": {"content": b"hello world", "mode": 0o100644, "mtime": 3}, b"/g": {"content": {"pat": b"xyz", "n": 300}, "mode": 0o100600, "mtime": 4}}
DIRS = {b"/d": [(1, 2, 3, b"a"), (4, 5, 6, b"bb")]}


@st.composite
def workloads(draw, api=None):
    n = draw(st.sampled_from([2, 2, 3]))
    ops, services = [], {}
    for i in range(n):
        kind = draw(st.sampled_from(["shell", "shell", "exec_out", "streaming_shell", "stat", "list", "pull", "push"]))
        if kind in ("shell", "exec_out", "streaming_shell"):
            cmd = "cmd%d" % i
            chunks = draw(st.lists(st.binary(min_size=1, max_size=6).map(lambda b, i=i: b"<%d:" % i + b + b">"), min_size=0, max_size=4))
            services[(b"exec:" if kind == "exec_out" else b"shell:") + cmd.encode()] = chunks
            ops.append({"op": kind, "cmd": cmd, "decode": False})
        elif kind == "stat":
            ops.append({"op": "stat", "path": draw(st.sampled_from(["/f", "/g", "/none"]))})
        elif kind == "list":
            ops.append({"op": "list", "path": "/d"})
        elif kind == "push":
            ops.append({"op": "push", "src": {"kind": "bytesio", "content": {"pat": b"<P%d>" % i, "n": draw(st.sampled_from([0, 10, 3000, 5000, 9000]))}}, "path": "/push%d" % i, "mtime": 7 + i,
                        "cb": draw(st.sampled_from([None, None, "rec"]))})
        else:
            ops.append({"op": "pull", "path": draw(st.sampled_from(["/f", "/g"])), "dest": "bytesio"})
    if draw(st.sampled_from([False] * 5 + [True])):
        ops.insert(draw(st.integers(0, len(ops))), {"op": "close"})
    return {"api": api or draw(st.sampled_from(["sync", "async"])),
            "device": {"services": services, "fs": FS, "dirs": DIRS, "eager_clse": draw(st.lists(st.booleans(), max_size=3)), "recv_sizes": [100],
                       "rids": draw(sc.rid_list(4)), "zero_clse_reply": draw(st.booleans()), "maxdata": draw(st.sampled_from([4096, 4096, 65536, 1048576])),
                       "zero_arg1": draw(st.one_of(st.just([]), st.just([]), st.lists(st.booleans(), min_size=1, max_size=6)))},
            "dev_tape": draw(st.lists(st.integers(0, 5), max_size=40)),
            "transport": {"flavour": draw(sc.flavour()), "log_calls": False},
            "connect": {}, "ops": ops,
            "sched": draw(st.one_of(st.lists(st.integers(0, 2), max_size=500),
                                    st.fixed_dictionaries({"seed": st.integers(0, 2 ** 32), "p": st.sampled_from([0.1, 0.3, 0.5, 0.8])}))),
            "trace": draw(st.sampled_from([None, None, "io", "fs"])) if api != "async" else None}


def judge(case, r, info):
    """Common oracle over a concurrent run."""
    if r.deadlock:
        return Violation("deadlock", "%s after %d scheduling steps; schedule tail %r" % (r.deadlock, r.steps, r.log[-6:]))
    if r.budget_exhausted:
        return Violation("livelock", "step budget exhausted (%d steps)" % r.steps)
    deviations = []
    with_close = any(o["op"] == "close" for o in case["ops"])
    for i, (op, res) in enumerate(zip(case["ops"], r.results)):
        if with_close and "exc" in res and res["exc"] not in ("SchedulerAbort", "Watchdog"):
            continue        # a concurrent close() may legitimately fail the other operations; they must still not deadlock or return wrong data
        v = expect.compare(case, op, res, case["device"])
        if v is not None:
            deviations.append((i, op, res, v))
    if not deviations:
        # what the device received for every push must be that push's own bytes
        recs = {p_["spec"]: p_ for sim in r.out.sims for p_ in sim.pushes}
        for op, res in zip(case["ops"], r.results):
            if op["op"] == "push" and "exc" not in res:
                spec = ("%s,%d" % (op["path"], int(op.get("mode", 0o100770)))).encode()
                rec = recs.get(spec)
                if rec is None:
                    return Violation("concurrent-push-lost", "push to %s returned normally but the device never completed a SEND for it (device saw %r)" % (op["path"], sorted(recs)))
                v = expect.check_push_record(op, rec)
                if v is not None:
                    return Violation("concurrent-push-corrupt:" + v.rule, v.detail)
        return None
    only_timeouts = all(common.is_timeout(res) for _, _, res, _ in deviations)
    if getattr(r, "dropped_clse_with_entry", None):
        return Violation("clse-dropped-although-stream-has-a-store-entry", "CLSE for %r was read by a worker that did not own the stream and was discarded although earlier packets of that stream had been parked "
                         "(this is not K1: K1 concerns streams with no store entry); deviations: %r" % (r.dropped_clse_with_entry, [(i, res.get("exc")) for i, _, res, _ in deviations]))
    if only_timeouts and r.dropped_clse:
        lids = set(a1 for _, a1 in r.dropped_clse)
        v = Violation("K1-clse-of-live-stream-discarded", "CLSE for local ids %r was read by a worker that did not own the stream and discarded; owners timed out" % sorted(lids), signature="K1")
        return v
    i, op, res, v = deviations[0]
    return Violation("wrong-concurrent-result:" + v.rule, "operation %d %r (of %d concurrent) deviates from what it returns alone: %s\n dropped CLSE observed: %r; steps=%d switches=%d"
                     % (i, op["op"], len(case["ops"]), v.detail, r.dropped_clse, r.steps, r.switches))


def check_random(case):
    r = conc.run_concurrent(case, case.get("sched") or (), trace=case.get("trace"))
    info = {"classes": [case["api"], "trace:%s" % case.get("trace")], "nontrivial": r.puts >= 1}
    v = judge(case, r, info)
    if r.puts:
        info["classes"].append("foreign-read")
    if r.switches >= 3:
        info["classes"].append(">=3-switches")
    if any(o["op"] == "close" for o in case["ops"]):
        info["classes"].append("concurrent-close")
    info["sample"] = {"ops": [(o["op"], o.get("cmd") or o.get("path") or "") for o in case["ops"]], "sched": case.get("sched") if isinstance(case.get("sched"), dict) else (case.get("sched") or [])[:30], "dev_tape": case["dev_tape"][:12],
                      "steps": r.steps, "switches": r.switches, "foreign_reads": r.puts, "api": case["api"]}
    return v, info


# ----------------------------------------------------------------------------- systematic enumeration
def fixed_workloads():
    sv = {b"shell:a": [b"<a1>", b"<a2>", b"<a3>"], b"shell:b": [b"<b1>"], b"shell:e": [], b"exec:x": [b"<x1>", b"<x2>"]}
    dev = {"services": sv, "fs": FS, "dirs": DIRS, "recv_sizes": [100], "maxdata": 4096}
    A = {"op": "shell", "cmd": "a", "decode": False}
    B = {"op": "shell", "cmd": "b", "decode": False}
    E = {"op": "shell", "cmd": "e", "decode": False}
    X = {"op": "exec_out", "cmd": "x", "decode": False}
    P1 = {"op": "push", "src": {"kind": "bytesio", "content": {"pat": b"<one>", "n": 6000}}, "path": "/p1", "mtime": 5}
    P2 = {"op": "push", "src": {"kind": "bytesio", "content": {"pat": b"<two>", "n": 3000}}, "path": "/p2", "mtime": 6}
    S = {"op": "stat", "path": "/f"}
    Ls = {"op": "list", "path": "/d"}
    P = {"op": "pull", "path": "/f", "dest": "bytesio"}
    G = {"op": "streaming_shell", "cmd": "a", "decode": False}
    return {"shell+shell": [A, B], "shell+empty": [A, E], "shell+stat": [A, S], "list+pull": [Ls, P], "stream+exec": [G, X], "shell+stat+empty": [B, S, E],
            "shell+close": [A, {"op": "close"}], "stat+close": [S, {"op": "close"}], "push+push": [P1, P2], "push+list": [P2, Ls]}, dev


DEV_TAPES = [[], [1, 0, 2, 1, 1, 0, 2, 0, 1, 1, 2, 0, 1, 0, 0, 1]]


def enum_case(name, api, dt, plan):
    wl, dev = fixed_workloads()
    return {"api": api, "device": dev, "dev_tape": DEV_TAPES[dt], "transport": {"flavour": "raises", "log_calls": False}, "connect": {}, "ops": wl[name],
            "_plan": plan}


def check_enum(c):
    case = enum_case(c["wl"], c["api"], c["dt"], None)
    plan = {int(k): v for k, v in c["plan"]}
    r = conc.run_concurrent(case, (), plan=plan, trace=c.get("trace"))
    info = {"classes": [c["api"], c["wl"], "p=%d" % len(plan), "trace:%s" % c.get("trace")], "nontrivial": r.puts >= 1,
            "sample": {"workload": c["wl"], "api": c["api"], "dev_tape": c["dt"], "preemptions": c["plan"], "steps": r.steps, "foreign_reads": r.puts, "trace": c.get("trace")}}
    v = judge(case, r, info)
    info["_log"] = r.log
    return v, info


def alternatives(log, after=-1):
    """(step, worker) preemption points: at each step, every runnable worker other than the one chosen."""
    out = []
    for entry in log:
        step, chosen, runnable = entry[0], entry[1], entry[2]
        if step <= after:
            continue
        for w in runnable:
            if w != chosen:
                out.append((step, w))
    return out


def enum_items(pmax):
    def gen(shard, nshards):
        wl, _ = fixed_workloads()
        idx = 0
        for name in wl:
            for api, trace in (("sync", None), ("async", None), ("sync", "fs")):
                if trace and "push" not in name:
                    continue          # line-level preemption inside the filesync helpers: only for the workloads with a push
                for dt in range(len(DEV_TAPES)):
                    if trace and dt:
                        continue
                    base = {"wl": name, "api": api, "dt": dt, "plan": [], "trace": trace}
                    _, info0 = check_enum(base)
                    if shard == 0:
                        yield base
                    for (s1, w1) in alternatives(info0["_log"]):
                        idx += 1
                        if idx % nshards != shard:
                            continue
                        c1 = {"wl": name, "api": api, "dt": dt, "plan": [[s1, w1]], "trace": trace}
                        yield c1
                        if pmax >= 2:
                            _, info1 = check_enum(c1)
                            for (s2, w2) in alternatives(info1["_log"], after=s1):
                                yield {"wl": name, "api": api, "dt": dt, "plan": [[s1, w1], [s2, w2]], "trace": trace}
    return gen


# ----------------------------------------------------------------------------- interleaved generators (one thread)
@st.composite
def generator_cases(draw):
    a = draw(st.lists(st.binary(min_size=1, max_size=4).map(lambda b: b"<A" + b + b">"), min_size=0, max_size=4))
    b = draw(st.lists(st.binary(min_size=1, max_size=4).map(lambda b: b"<B" + b + b">"), min_size=0, max_size=4))
    return {"api": "sync", "device": {"services": {b"shell:a": a, b"shell:b": b}, "eager_clse": draw(st.lists(st.booleans(), max_size=2))},
            "dev_tape": draw(st.lists(st.integers(0, 3), max_size=20)), "transport": {"flavour": draw(sc.flavour()), "log_calls": False}, "connect": {},
            "order": draw(st.lists(st.integers(0, 1), max_size=12))}


def check_generators(case):
    conc.obs_reset()
    try:
        out = runner.build(case, async_=False)
        dev = out.device
        dev.connect()
        gens = [dev.streaming_shell("a", decode=False), dev.streaming_shell("b", decode=False)]
        got = [[], []]
        done = [False, False]
        excs = [None, None]
        order = list(case["order"]) + [0, 1] * 8
        for g in order:
            if all(done):
                break
            if done[g]:
                g = 1 - g
            try:
                got[g].append(next(gens[g]))
            except StopIteration:
                done[g] = True
            except Exception as e:  # noqa
                done[g] = True
                excs[g] = e
    finally:
        conc.OBS["active"] = False
    dropped = list(conc.OBS["dropped_clse"])
    info = {"classes": ["generators"], "nontrivial": conc.OBS["puts"] >= 1,
            "sample": {"a": case["device"]["services"][b"shell:a"], "b": case["device"]["services"][b"shell:b"], "order": case["order"], "foreign_reads": conc.OBS["puts"]}}
    want = [case["device"]["services"][b"shell:a"], case["device"]["services"][b"shell:b"]]
    dev_ = []
    for g in (0, 1):
        if excs[g] is not None or got[g] != want[g]:
            dev_.append(g)
    if not dev_:
        return None, info
    timeouts_only = all(excs[g] is not None and type(excs[g]).__name__ in ("AdbTimeoutError", "TcpTimeoutException") and got[g] == want[g][:len(got[g])] for g in dev_)
    if conc.OBS["dropped_clse_with_entry"]:
        return Violation("clse-dropped-although-stream-has-a-store-entry", "interleaved generators: CLSE %r discarded although earlier packets of that stream had been parked (not K1)" % conc.OBS["dropped_clse_with_entry"]), info
    if timeouts_only and dropped:
        return Violation("K1-clse-of-live-stream-discarded", "interleaved generators: CLSE %r discarded" % dropped, signature="K1"), info
    g = dev_[0]
    return Violation("wrong-interleaved-result", "generator %d yielded %r (exception %r), device wrote %r; dropped CLSE %r" % (g, got[g], excs[g], want[g], dropped)), info


# ----------------------------------------------------------------------------- two device objects in one process
@st.composite
def two_device_cases(draw):
    def chunks(tag):
        return draw(st.lists(st.binary(min_size=1, max_size=4).map(lambda b, tag=tag: b"<" + tag + b + b">"), min_size=1, max_size=4))
    return {"x": {"services": {b"shell:g": chunks(b"Xg"), b"shell:c": chunks(b"Xc")}},
            "y": {"services": {b"shell:g": chunks(b"Yg"), b"shell:c": chunks(b"Yc")}},
            "steps": draw(st.lists(st.sampled_from(["x-next", "y-next", "x-shell", "y-shell", "y-reconnect", "x-next", "y-next"]), min_size=2, max_size=12)),
            "flavour": draw(sc.flavour()), "same_rids": draw(st.booleans())}


def check_two_devices(case):
    """Two AdbDevice objects (two physical devices) used alternately by one thread: streams of one device never see the other's packets."""
    conc.obs_reset()
    try:
        outs = {}
        for name in ("x", "y"):
            scn = {"api": "sync", "device": dict(case[name], rids=[] if case["same_rids"] else ([5000] if name == "y" else [])),
                   "transport": {"flavour": case["flavour"], "log_calls": False}}
            outs[name] = runner.build(scn, async_=False)
        outs["x"].sim.clock = outs["y"].clock
        outs["x"].core.clock = outs["y"].clock
        devs = {n: outs[n].device for n in outs}
        for d in devs.values():
            d.connect()
        gens = {n: devs[n].streaming_shell("g", decode=False) for n in devs}
        got = {"x": [], "y": []}
        done = {"x": False, "y": False}
        errs = []
        shells = []
        for step in list(case["steps"]) + ["x-next", "y-next"] * 6:
            n, act = step.split("-")
            try:
                if act == "next":
                    if not done[n]:
                        try:
                            got[n].append(next(gens[n]))
                        except StopIteration:
                            done[n] = True
                elif act == "shell":
                    shells.append((n, devs[n].shell("c", decode=False)))
                elif act == "reconnect" and done[n]:
                    devs[n].close()
                    devs[n].connect()
            except Exception as e:  # noqa
                errs.append((step, e))
                if act == "next":
                    done[n] = True
    finally:
        conc.OBS["active"] = False
    info = {"classes": ["two-devices"], "nontrivial": conc.OBS["puts"] >= 1,
            "sample": {"steps": case["steps"], "x": case["x"]["services"][b"shell:g"], "y": case["y"]["services"][b"shell:g"], "foreign_reads": conc.OBS["puts"]}}
    bad = []
    for n in ("x", "y"):
        if got[n] != case[n]["services"][b"shell:g"]:
            bad.append("device %s generator yielded %r, its device wrote %r" % (n, got[n], case[n]["services"][b"shell:g"]))
    for n, r in shells:
        if r != b"".join(case[n]["services"][b"shell:c"]):
            bad.append("device %s shell returned %r, its device wrote %r" % (n, r, case[n]["services"][b"shell:c"]))
    if not bad and not errs:
        return None, info
    only_timeouts = all(type(e).__name__ in ("AdbTimeoutError", "TcpTimeoutException") for _, e in errs)
    prefixes_ok = all(got[n] == case[n]["services"][b"shell:g"][:len(got[n])] for n in got) and all(r == b"".join(case[n]["services"][b"shell:c"]) for n, r in shells)
    if errs and only_timeouts and prefixes_ok and conc.OBS["dropped_clse"] and not conc.OBS["dropped_clse_with_entry"]:
        return Violation("K1-clse-of-live-stream-discarded", "two devices: CLSE %r discarded" % conc.OBS["dropped_clse"], signature="K1"), info
    return Violation("cross-device-interference", "; ".join(bad) + ("; errors: %r" % [(s_, type(e).__name__, str(e)[:80]) for s_, e in errs] if errs else "")), info


def replay(part, case):
    if part == "two-devices":
        v = check_two_devices(case)[0]
        return None if (v is not None and v.signature in harness.KNOWN) else v
    if part == "enum":
        v = check_enum(case)[0]
    elif part == "generators":
        v = check_generators(case)[0]
    else:
        v = check_random(case)[0]
    if v is not None and v.signature in harness.KNOWN:
        return None
    return v


def run(tier, seed):
    t0 = time.time()
    quick = tier == "quick"
    col = harness.corpus_part(ID, "random", check_random)
    col.merge(harness.hypothesis_part("random", workloads(api="sync"), check_random, 2500 if quick else 60000, seed, shrink=not quick))
    col.merge(harness.hypothesis_part("random", workloads(api="async"), check_random, 5000 if quick else 120000, seed, shrink=not quick))
    col.merge(harness.hypothesis_part("generators", generator_cases(), check_generators, 2000 if quick else 40000, seed, shrink=not quick))
    col.merge(harness.hypothesis_part("two-devices", two_device_cases(), check_two_devices, 1500 if quick else 30000, seed, shrink=not quick))

    def strip(c):
        v, info = check_enum(c)
        info.pop("_log", None)
        return v, info
    col.merge(harness.enumeration_part("enum", enum_items(1 if quick else 2), strip, distinct=True, stop_after=3))
    return harness.finish(ID, tier, seed, LEVEL, col, RULE, ASSUMPTIONS, t0,
                          extra={"preemption_bound_enumerated": 1 if quick else 2})
