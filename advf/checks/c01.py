"""C01 -- shell/exec output is exactly what the device wrote, for every chunking."""
import time

from hypothesis import strategies as st

from .. import harness, runner, scenario as sc, common
from ..harness import Violation

ID = "C01"
LEVEL = "exploration"
RULE = ("Hypothesis-generated (output bytes, partition into WRTE payloads, operation, decode flag, earlier operations, "
        "remote ids, eager/duplicate CLSE, legacy zero host ids on device packets, abandoned earlier stream, earlier OPEN answered only after its caller timed out, read-fragmentation tape, transport flavour, API); "
        "oracle = the simulator's per-stream record of delivered payloads. Non-trivial: >=2 chunks, or a multi-byte UTF-8 "
        "sequence split across chunks, or stale traffic of another stream, or fragmented reads. Distinct = distinct case hash.")
ASSUMPTIONS = ["device simulator is a faithful adbd (stop-and-wait, ids, CLSE rules)",
               "virtual clock replaces the modules' time source; in-memory transport"]

BIG = [4095, 4096, 4097, 65535, 65536, 65537, 1048575, 1048576]


def chunk_strategy():
    small = sc.utf8ish()
    big = st.builds(lambda pat, n: (pat * (n // len(pat) + 1))[:n], st.binary(min_size=1, max_size=5), st.sampled_from(BIG))
    return st.one_of(small, small, small, small.filter(len), big)


@st.composite
def split_multibyte(draw):
    """Chunks whose cuts fall inside multi-byte sequences."""
    text = draw(st.lists(st.sampled_from(["é", "€", "中", "\U0001F600", "a", "ß"]), min_size=1, max_size=6))
    data = "".join(text).encode()
    cuts = sorted(set(draw(st.lists(st.integers(1, max(1, len(data) - 1)), min_size=1, max_size=5))))
    out, prev = [], 0
    for c in cuts + [len(data)]:
        if c > prev:
            out.append(data[prev:c])
            prev = c
    return out


@st.composite
def cases(draw):
    op = draw(st.sampled_from(["shell", "shell", "exec_out", "streaming_shell", "root"]))
    decode = draw(st.booleans())
    chunks = draw(st.one_of(
        st.lists(chunk_strategy().filter(lambda b: len(b) > 0), min_size=0, max_size=6),
        split_multibyte(),
    ))
    npre = draw(st.integers(0, 3))
    pre = []
    services = {}
    slow = {}
    for i in range(npre):
        kind = draw(st.sampled_from(["shell", "abandon", "stat", "slow-open"]))
        if kind == "stat":
            pre.append({"op": "stat", "path": "/pre%d" % i})
        elif kind == "slow-open":
            # a service that answers its OPEN only after the caller's read timeout: the call fails, the late answer arrives during later operations
            services[("shell:slow%d" % i).encode()] = [b"<late-%d>" % i]
            slow[("shell:slow%d" % i).encode()] = draw(st.sampled_from([0.5, 0.8, 3.0]))
            pre.append({"op": "shell", "cmd": "slow%d" % i, "decode": False, "read_timeout_s": 0.3, "transport_timeout_s": 0.1})
        else:
            marker = bytes([0x01 + i]) * draw(st.integers(1, 5))   # control bytes never drawn for the target
            n = draw(st.integers(0, 3)) if kind == "shell" else draw(st.integers(2, 4))
            services[("shell:pre%d" % i).encode()] = [b"<" + marker + b">"] * n
            o = {"op": "shell" if kind == "shell" else "streaming_shell", "cmd": "pre%d" % i, "decode": False}
            if kind == "abandon":
                o["take"] = 1
            pre.append(o)
    cmd = draw(st.sampled_from(["ls", "echo hi", "cat /x; ü", "a" * 200]))
    dest = {"shell": b"shell:", "streaming_shell": b"shell:", "exec_out": b"exec:", "root": b"root:"}[op] + (cmd.encode() if op != "root" else b"")
    services[dest] = chunks
    target = {"op": op}
    if op != "root":
        target["cmd"] = cmd
        target["decode"] = decode
    frag = draw(sc.frag_tape())
    frag = sc.tame_frag(frag, sum(len(c) for c in chunks) + 1000)
    if slow:
        # an operation that is about to time out must not be fed half a packet: with read_timeout_s = 0.3 s the deadline can pass between two fragments
        # of one header, the library then (rightly) gives up, and what happens to later operations on that connection is C12's subject, not C01's
        frag = []
    return {
        "api": draw(st.sampled_from(["sync", "async"])),
        "device": {"services": services, "rids": draw(sc.rid_list()), "eager_clse": draw(st.lists(st.booleans(), max_size=4)),
                   "dup_clse": draw(st.booleans()), "open_delay": slow,
                   "zero_arg1": draw(st.one_of(st.just([]), st.just([]), st.lists(st.booleans(), min_size=1, max_size=5)))},
        "dev_tape": draw(sc.dev_tape(20)),
        "transport": {"flavour": draw(sc.flavour()), "frag": frag},
        "connect": {},
        "ops": pre + [target],
    }


def has_split_sequence(chunks):
    for c in chunks[:-1]:
        try:
            c.decode("utf8")
        except UnicodeDecodeError as e:
            if e.reason == "unexpected end of data":
                return True
    return False


def check_case(case):
    out = runner.run(case)
    idx = len(out.results) - 1
    op = case["ops"][-1]
    res = out.results[-1]
    info = {"classes": [op["op"], out.api]}
    v = common.generic_violation(out, case)
    if v is not None:
        return v, info
    # the target's stream is the last OPEN
    s = out.sim.streams[-1] if out.sim.streams else None
    dest = [k for k in case["device"]["services"] if not k.startswith(b"shell:pre") and not k.startswith(b"shell:slow")][0]
    scripted = case["device"]["services"][dest]
    if s is None or s.dest != dest:
        return Violation("target-stream-not-opened", "streams=%r" % [x.dest for x in out.sim.streams]), info
    written = list(s.written)
    if "exc" in res:
        return Violation("unexpected-exception", "%s: %s (op %r)" % (res["exc"], res["msg"], op)), info
    if written != list(scripted):
        return Violation("device-output-not-consumed", "device delivered %d of %d scripted payloads although the call returned" % (len(written), len(scripted))), info
    joined = b"".join(written)
    got = res["ok"]
    decode = op.get("decode", True)
    if op["op"] == "root":
        exp = None
    elif op["op"] == "streaming_shell":
        exp = [w.decode("utf8", "backslashreplace") for w in written] if decode else written
    else:
        exp = joined.decode("utf8", "backslashreplace") if decode else joined
    if got != exp:
        return Violation("wrong-output", "op=%r decode=%r\n expected %s\n got      %s" % (op["op"], decode, _short(exp), _short(got))), info
    nontrivial = (len(scripted) >= 2 or has_split_sequence(scripted) or len(case["ops"]) > 1 or out.core.frag_reads > 0)
    info["nontrivial"] = nontrivial
    if len(scripted) >= 2:
        info["classes"].append("multi-chunk")
    if len(scripted) == 0:
        info["classes"].append("no-output")
    if has_split_sequence(scripted):
        info["classes"].append("split-utf8")
    if out.core.frag_reads:
        info["classes"].append("fragmented-reads")
    if any(o.get("take") for o in case["ops"]):
        info["classes"].append("abandoned-stream-traffic")
    if case["device"].get("open_delay"):
        info["classes"].append("late-open-answer")
    if decode:
        info["classes"].append("decode")
    if any(len(c) >= 4095 for c in scripted):
        info["classes"].append("big-chunk")
    info["sample"] = {"op": op, "chunks": scripted, "pre": len(case["ops"]) - 1, "frag": case["transport"]["frag"], "api": out.api}
    return None, info


def _short(x):
    r = repr(x)
    return r if len(r) < 300 else r[:300] + "...(%d)" % len(r)


def replay(part, case):
    return check_case(case)[0]


def run(tier, seed):
    t0 = time.time()
    n = 6000 if tier == "quick" else 120000
    col = harness.corpus_part(ID, "main", check_case)
    col.merge(harness.hypothesis_part("main", cases(), check_case, n, seed, shrink=(tier == "thorough")))
    return harness.finish(ID, tier, seed, LEVEL, col, RULE, ASSUMPTIONS, t0)
