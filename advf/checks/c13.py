"""C13 -- nothing is sent unless connected; availability tracks the connection truthfully."""
import asyncio
import itertools
import os
import shutil
import tempfile
import time

from hypothesis import strategies as st

from .. import env, harness, runner, expect
from ..harness import Violation

ID = "C13"
LEVEL = "exploration"
RULE = ("Complete enumeration of all histories up to length 3 (quick) / 4 (thorough, plus all length-5 histories over the 15 core letters of the property's quantifier, plus Hypothesis-sampled histories of length 5..30) over the 26-letter alphabet "
        "{connect-ok (also with a device announcing maxdata 0), creating a streaming_shell generator and consuming it later, connect-fail in {transport refuses, AUTH without keys, invalid challenge, silent device, public key answered by another challenge instead of CNXN}, close, close whose transport.close() raises, exec_out, root, shell, streaming_shell, reboot, list, stat, pull, push, "
        "and list/stat/pull/push (BytesIO, file and directory sources) with an empty device path, and a shell whose OPEN is never answered (times out; available must stay True)}, for AdbDevice and AdbDeviceAsync. Oracle = two-state model: `available` equals the model after every step and is False when observed "
        "from inside transport.connect() of a running attempt; a disconnected operation raises AdbConnectionError (DevicePathInvalidError for an empty path; either when both apply) without a single "
        "transport write and without creating the pull destination; a connected operation is served by the simulator, returns the model's value and never raises AdbConnectionError. "
        "Non-trivial: history contains a failed connect or a close followed by an operation. Distinct = (history, api).")
ASSUMPTIONS = ["in-memory transport counts every bulk_write call and byte", "device simulator for the connected state"]

FS = {b"/f": {"content": b"hello", "mode": 0o100644, "mtime": 3}}
DEV = {"services": {b"shell:ls": [b"ab", b"cd"], b"exec:id": [b"uid=0"], b"root:": [b"ok"]}, "fs": FS, "dirs": {b"/d": [(1, 2, 3, b"a")]},
       "ignore_open": (b"shell:zz",)}      # the OPEN of `shell zz` is never answered: the call times out, the connection (and `available`) stays

OPS = {
    "exec_out": {"op": "exec_out", "cmd": "id", "decode": False},
    "root": {"op": "root"},
    "shell": {"op": "shell", "cmd": "ls"},
    "streaming_shell": {"op": "streaming_shell", "cmd": "ls", "decode": False},
    "reboot": {"op": "reboot"},
    "shell-unanswered": {"op": "shell", "cmd": "zz", "read_timeout_s": 0.1, "transport_timeout_s": 0.1},
    "list": {"op": "list", "path": "/d"},
    "stat": {"op": "stat", "path": "/f"},
    "pull": {"op": "pull", "path": "/f", "dest": "file"},
    "push": {"op": "push", "src": {"kind": "bytesio", "content": b"data"}, "path": "/p", "mtime": 5},
    "list-empty": {"op": "list", "path": ""},
    "stat-empty": {"op": "stat", "path": ""},
    "pull-empty": {"op": "pull", "path": "", "dest": "file"},
    "push-empty": {"op": "push", "src": {"kind": "bytesio", "content": b"data"}, "path": "", "mtime": 5},
    # the same with a local file and a local directory as the source (for a directory the per-file destinations '<path>/<name>' are not empty; the given path is)
    "pushfile-empty": {"op": "push", "src": {"kind": "file", "content": b"data"}, "path": "", "mtime": 5},
    "pushdir-empty": {"op": "push", "src": {"kind": "dir", "files": [("a.txt", b"aaa"), ("b", b"")]}, "path": "", "mtime": 5},
}
CONNECTS = ["connect-ok", "connect-ok-maxdata0", "connect-refused", "connect-nokeys", "connect-badchallenge", "connect-silent", "connect-rechallenged"]
ALPHABET = CONNECTS + ["close", "close-fails", "stream-create", "stream-consume"] + sorted(OPS)


def apply_connect_plan(out, letter):
    sim, core = out.sim, out.core
    core.cfg["refuse_connect"] = (letter == "connect-refused")
    sim.cfg["mute"] = (letter == "connect-silent")
    sim.maxdata = 0 if letter == "connect-ok-maxdata0" else 1048576        # a device may announce maxdata 0; the connection still counts
    if letter in ("connect-ok", "connect-ok-maxdata0", "connect-refused", "connect-silent"):
        sim.cfg["auth"] = {"mode": "none"}
    elif letter == "connect-nokeys":
        sim.cfg["auth"] = {"mode": "never"}
    elif letter == "connect-rechallenged":
        # every signature is rejected and the public key is answered with yet another challenge, never with CNXN
        sim.cfg["auth"] = {"mode": "never", "rechallenge_after_pubkey": True}
    else:
        sim.cfg["auth"] = {"mode": "never", "bad_challenge_at": 0, "bad_arg0": 9}
    kw = {"op": "connect", "read_timeout_s": 0.1, "transport_timeout_s": 0.1, "auth_timeout_s": 0.1}
    if letter in ("connect-badchallenge", "connect-rechallenged"):
        kw["keys"] = [{"tag": "k0"}]
    return kw


EXPECT_CONNECT = {"connect-ok": True, "connect-ok-maxdata0": True, "connect-refused": "ConnectionRefusedError", "connect-nokeys": "DeviceAuthError",
                  "connect-badchallenge": "InvalidResponseError", "connect-silent": ("AdbTimeoutError", "TcpTimeoutException"),
                  "connect-rechallenged": ("AdbTimeoutError", "TcpTimeoutException")}


def run_history(hist, api):
    scn = {"api": api, "device": dict(DEV), "transport": {"flavour": "raises", "log_calls": False}}
    out = runner.build(scn)
    out.ops = []
    observed_in_connect = []
    out.core.connect_hook = lambda: observed_in_connect.append(bool(out.device.available))
    model = False
    pending_gens = []
    out.tmpdir = None          # created lazily by the first pull step
    steps = []

    def pre(letter):
        w0 = (out.core.bytes_written, out.core.writes_while_closed, sum(s.bytes_in for s in out.sims))
        if letter in CONNECTS:
            # a (re)connect makes adbd challenge from scratch: the bad-challenge index refers to the first challenge of the attempt
            op = apply_connect_plan(out, letter)
        elif letter == "stream-create":
            op = {"op": "stream-create"}
        elif letter == "stream-consume":
            op = {"op": "stream-consume"}
        elif letter in ("close", "close-fails"):
            op = {"op": "close"}
            if letter == "close-fails" and out.core.connected:
                out.core.cfg["close_raises_once"] = True      # the transport's own close() raises (once)
        else:
            op = dict(OPS[letter])
        # an idle link that reports "nothing yet" as empty reads (USB-like) makes the library's own deadline fire (AdbTimeoutError) rather than the transport's
        out.core.flavour = "empty" if letter == "shell-unanswered" else "raises"
        return op, w0

    def post(i, letter, op, w0, res):
        nonlocal model
        w1 = (out.core.bytes_written, out.core.writes_while_closed, sum(s.bytes_in for s in out.sims))
        avail = bool(out.device.available)
        if letter in CONNECTS:
            want = EXPECT_CONNECT[letter]
            model = (want is True)
            if want is True:
                if res.get("ok") is not True:
                    return Violation("connect-ok-failed", "step %d %s: %r" % (i, letter, res))
            else:
                names = want if isinstance(want, tuple) else (want,)
                if res.get("exc") not in names:
                    return Violation("connect-fail-wrong-outcome", "step %d %s: expected %s, got %r" % (i, letter, names, res))
        elif letter in ("close", "close-fails"):
            model = False
            if "exc" in res and not (letter == "close-fails" and res["exc"] == "OSError"):
                return Violation("close-raised", "step %d: %r" % (i, res))
        elif letter == "stream-create":
            if "exc" in res or w1 != w0:
                return Violation("generator-creation-had-effects", "step %d: creating a streaming_shell generator raised or wrote to the transport: %r" % (i, res))
        elif letter == "stream-consume":
            if res.get("ok") == "nothing-pending":
                pass
            elif not model:
                # the availability that counts is the one at the time the command actually runs
                if res.get("exc") != "AdbConnectionError":
                    return Violation("disconnected-op-wrong-outcome", "step %d: consuming a streaming_shell generator on a disconnected device: expected AdbConnectionError, got %r" % (i, res))
                if w1 != w0:
                    return Violation("bytes-written-while-disconnected", "step %d: consuming a streaming_shell generator on a disconnected device wrote to the transport" % i)
            else:
                if res.get("exc") == "AdbConnectionError":
                    return Violation("connected-op-refused", "step %d: streaming_shell generator consumed on a connected device raised AdbConnectionError" % i)
                if res.get("ok") != [b"ab", b"cd"]:
                    return Violation("connected-op-wrong-result", "step %d stream-consume: %r" % (i, res))
        else:
            empty = letter.endswith("-empty")
            if not model:
                allowed = ("AdbConnectionError", "DevicePathInvalidError") if empty else ("AdbConnectionError",)
                if res.get("exc") not in allowed:
                    return Violation("disconnected-op-wrong-outcome", "step %d %s on a disconnected device: expected %s, got %r" % (i, letter, allowed, res))
                if w1 != w0:
                    return Violation("bytes-written-while-disconnected", "step %d %s on a disconnected device wrote to the transport (bytes/calls before %r after %r)" % (i, letter, w0, w1))
            elif empty:
                if res.get("exc") != "DevicePathInvalidError":
                    return Violation("empty-path-wrong-outcome", "step %d %s: expected DevicePathInvalidError, got %r" % (i, letter, res))
                if w1 != w0:
                    return Violation("bytes-written-for-empty-path", "step %d %s wrote to the transport" % (i, letter))
            elif letter == "shell-unanswered":
                # a timed-out operation is not a close(): the documented outcome is the timeout error, and `available` (compared below) stays True
                if res.get("exc") not in ("AdbTimeoutError", "TcpTimeoutException"):
                    return Violation("unanswered-open-wrong-outcome", "step %d %s: expected a timeout error, got %r" % (i, letter, res))
            else:
                if res.get("exc") == "AdbConnectionError":
                    return Violation("connected-op-refused", "step %d %s on a connected device raised AdbConnectionError" % (i, letter))
                v = expect.compare(scn, op, res, DEV)
                if v is not None:
                    return Violation("connected-op-wrong-result", "step %d %s: %s" % (i, letter, v.detail))
            if (not model or empty) and op["op"] == "pull":
                dest = out.extra.get("pull_dest", {}).get(i)
                if dest is not None and os.path.exists(dest):
                    return Violation("local-file-created", "step %d %s created %s although nothing was pulled" % (i, letter, dest))
        if avail != model:
            return Violation("available-disagrees-with-model", "after step %d %s: available=%r, model=%r (history %r)" % (i, letter, avail, model, hist))
        return None

    try:
        if api == "sync":
            for i, letter in enumerate(hist):
                op, w0 = pre(letter)
                try:
                    if op["op"] == "stream-create":
                        pending_gens.append(out.device.streaming_shell("ls", decode=False))     # nothing runs until the generator is consumed
                        r = {"ok": "created"}
                    elif op["op"] == "stream-consume":
                        r = {"ok": list(pending_gens.pop(0)) if pending_gens else "nothing-pending"}
                    else:
                        r = {"ok": runner.run_op_sync(out.device, op, i, out)}
                except env.HarnessError:
                    raise
                except Exception as e:  # noqa
                    r = runner.exc_result(e)
                steps.append(r)
                v = post(i, letter, op, w0, r)
                if v is not None:
                    return v, out
        else:
            async def main():
                for i, letter in enumerate(hist):
                    op, w0 = pre(letter)
                    try:
                        if op["op"] == "stream-create":
                            pending_gens.append(out.device.streaming_shell("ls", decode=False))
                            r = {"ok": "created"}
                        elif op["op"] == "stream-consume":
                            r = {"ok": [x async for x in pending_gens.pop(0)] if pending_gens else "nothing-pending"}
                        else:
                            r = {"ok": await runner.run_op_async(out.device, op, i, out)}
                    except env.HarnessError:
                        raise
                    except Exception as e:  # noqa
                        r = runner.exc_result(e)
                    steps.append(r)
                    v = post(i, letter, op, w0, r)
                    if v is not None:
                        return v
                return None
            v = runner.run_async(main())
            if v is not None:
                return v, out
        if any(observed_in_connect):
            return Violation("available-during-connect", "available was True while transport.connect() of a new attempt was running (history %r)" % (hist,)), out
        return None, out
    finally:
        if out.tmpdir:
            shutil.rmtree(out.tmpdir, ignore_errors=True)


def nontrivial(hist):
    seen_fail_or_close = False
    for l in hist:
        if l in CONNECTS[1:] or l in ("close", "close-fails"):
            seen_fail_or_close = True
        elif l not in CONNECTS and seen_fail_or_close:
            return True
    return False


def check_case(c):
    hist, api = c["h"], c["api"]
    v, out = run_history(hist, api)
    info = {"classes": [api, "len%d" % len(hist)], "nontrivial": nontrivial(hist), "sample": {"history": hist, "api": api}}
    return v, info


CORE = ["connect-ok", "connect-refused", "connect-nokeys", "connect-badchallenge", "connect-silent", "close",
        "exec_out", "root", "shell", "streaming_shell", "reboot", "list", "stat", "pull", "push"]      # the 15 letters of the property's own quantifier


def histories(maxlen, core_len=0):
    for n in range(1, maxlen + 1):
        for h in itertools.product(ALPHABET, repeat=n):
            yield list(h)
    for n in range(maxlen + 1, core_len + 1):
        for h in itertools.product(CORE, repeat=n):
            yield list(h)


def long_cases():
    return st.fixed_dictionaries({"h": st.lists(st.sampled_from(ALPHABET), min_size=5, max_size=30), "api": st.sampled_from(["sync", "async"])})


def replay(part, case):
    return check_case(case)[0]


def run(tier, seed):
    t0 = time.time()
    quick = tier == "quick"
    maxlen = 3 if quick else 4
    core_len = 0 if quick else 5

    def items(shard, nshards):
        i = 0
        for h in histories(maxlen, core_len):
            for api in ("sync", "async"):
                i += 1
                if i % nshards == shard:
                    yield {"h": h, "api": api}

    col = harness.corpus_part(ID, "enum", check_case)
    col.merge(harness.enumeration_part("enum", items, check_case, distinct=True))
    col.merge(harness.hypothesis_part("long", long_cases(), check_case, 1500 if quick else 60000, seed, shrink=not quick))
    return harness.finish(ID, tier, seed, LEVEL, col, RULE, ASSUMPTIONS, t0, exhaustive=True,
                          extra={"alphabet": ALPHABET, "max_history_length_enumerated": maxlen})
