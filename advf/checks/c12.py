"""C12 -- any transport failure leaves the device object recoverable (fault enumeration)."""
import asyncio
import threading
import time

from hypothesis import strategies as st

from .. import env, harness, runner, expect
from ..harness import Violation

L = env.lib()

ID = "C12"
LEVEL = "fault_enumeration"
RULE = ("Complete single-fault sweep: for each of 12 scenarios (connect-with-auth, shell, stat, list, pull, push, abandoned stream, in several orders) x every index k of its transport-call "
        "sequence x every applicable fault kind in {read raises timeout, read raises ConnectionResetError, EOF from k on, short read then raise, short read then EOF, write raises BrokenPipeError, partial write then raise, "
        "write raises timeout, connect refused} x recovery variant {close()+connect(), connect() only, close()+connect() with the broken session's late packets (OKAY/WRTE/CLSE for each of the last three streams the host had opened in it) delivered right behind the new CNXN, as on a USB-like pipe} x both APIs; Hypothesis-sampled fault pairs (second fault inside the recovery); and the same recovery oracle over real loopback TCP where the peer aborts the connection (RST) after a drawn number of host packets. "
        "Oracle: the faulted call raises or returns the model's value; then, with Lock rebound to a lock that fails instead of blocking when already held, close() completes, connect() to a fresh healthy "
        "simulator returns True and the whole scenario replayed gives exactly the model's results; Watchdog = non-termination. Non-trivial: fault strictly inside an operation (not its first call). "
        "Distinct = (scenario, k, kind, variant, api).")
ASSUMPTIONS = ["in-memory transport fault model", "after reconnect the transport talks to a fresh healthy simulator", "auxiliary white-box observation: packet store empty after reconnect (skipped if the attribute is absent)"]

FS = {b"/f": {"content": {"pat": b"abcdef", "n": 40}, "mode": 0o100644, "mtime": 3}}
DEV = {"services": {b"shell:ls": [b"ab", b"cd"], b"shell:x": [b"1", b"2", b"3"], b"exec:id": [b"uid=0"]}, "fs": FS, "recv_sizes": [16],
       "dirs": {b"/d": [(1, 2, 3, b"a"), (4, 5, 6, b"bb")]}, "maxdata": 8192}
HEALTHY_MAXDATA = 4096      # the device met after the reconnect negotiates a smaller maxdata than the broken session had
RT = {"read_timeout_s": 1.0}
SH = dict({"op": "shell", "cmd": "ls"}, **RT)
ST = dict({"op": "stat", "path": "/f"}, **RT)
LS = dict({"op": "list", "path": "/d"}, **RT)
PL = dict({"op": "pull", "path": "/f", "dest": "bytesio"}, **RT)
PLC = dict({"op": "pull", "path": "/f", "dest": "bytesio", "cb": "rec"}, **RT)
PS = dict({"op": "push", "src": {"kind": "bytesio", "content": {"pat": b"xy", "n": 5000}}, "path": "/p", "mtime": 9}, **RT)
AB = dict({"op": "streaming_shell", "cmd": "x", "decode": False, "take": 1}, **RT)
EX = dict({"op": "exec_out", "cmd": "id", "decode": False}, **RT)
AUTH = {"auth": {"mode": "key", "accept": "k1"}}
CONN_AUTH = {"keys": [{"tag": "k0"}, {"tag": "k1"}], "read_timeout_s": 1.0, "auth_timeout_s": 0.5}
CONN = {"read_timeout_s": 1.0}

SCENARIOS = {
    "auth+shell": (dict(DEV, **AUTH), CONN_AUTH, [SH]),
    "shell,shell": (DEV, CONN, [SH, SH]),
    "stat,list": (DEV, CONN, [ST, LS]),
    "pull": (DEV, CONN, [PL]),
    "pull-cb": (DEV, CONN, [PLC]),
    "push": (DEV, CONN, [PS]),
    "stat,shell,push": (DEV, CONN, [ST, SH, PS]),
    "pull,list": (DEV, CONN, [PL, LS]),
    "push,pull": (DEV, CONN, [PS, PL]),
    "abandon,shell,stat": (DEV, CONN, [AB, SH, ST]),
    "exec,list,shell": (DEV, CONN, [EX, LS, SH]),
    "auth+push,stat": (dict(DEV, **AUTH), CONN_AUTH, [PS, ST]),
}
R_KINDS = ["r_timeout", "r_reset", "eof", "r_short_raise", "r_short_eof"]
W_KINDS = ["w_pipe", "w_partial_raise", "w_timeout"]
C_KINDS = ["c_refuse"]


class LockStillHeld(Exception):
    pass


class CheckingLock(object):
    """threading.Lock stand-in that fails instead of blocking when already held (single-threaded runs)."""

    def __init__(self):
        self._l = threading.Lock()

    def acquire(self, blocking=True, timeout=-1):
        if not self._l.acquire(False):
            raise LockStillHeld("a lock is still held from an earlier (failed) operation")
        return True

    def release(self):
        self._l.release()

    def locked(self):
        return self._l.locked()

    def __enter__(self):
        self.acquire()
        return self

    def __exit__(self, *a):
        self.release()


class CheckingAsyncLock(asyncio.Lock):
    async def acquire(self):
        if self.locked():
            raise LockStillHeld("a lock is still held from an earlier (failed) operation")
        return await super().acquire()


_PROFILE = {}


def profile(name, api):
    """Healthy run: per-op transport-call ranges and call kinds."""
    key = (name, api)
    if key not in _PROFILE:
        dev, conn, ops = SCENARIOS[name]
        marks = []
        scn = {"api": api, "device": dev, "connect": conn, "ops": ops, "transport": {"flavour": "raises"}}
        out = runner.run(scn, before_op=lambda o, i, op: marks.append(o.core.ncalls))
        if any("exc" in r for r in out.results):
            raise env.HarnessError("C12 scenario %s/%s fails healthy: %r" % (name, api, out.results))
        for op, res in zip(out.ops, out.results):
            v = expect.compare(scn, op, res, dev)
            if v is not None:
                raise env.HarnessError("C12 scenario %s/%s healthy run disagrees with the model: %r" % (name, api, v))
        marks.append(out.core.ncalls)
        kinds = [c[0] for c in out.core.calls]
        _PROFILE[key] = (marks, kinds)
    return _PROFILE[key]


def applicable(kind, callkind):
    return (kind in R_KINDS and callkind == "r") or (kind in W_KINDS and callkind == "w") or (kind in C_KINDS and callkind == "c")


def grid():
    for name in SCENARIOS:
        for api in ("sync", "async"):
            marks, kinds = profile(name, api)
            for k, ck in enumerate(kinds):
                for kind in R_KINDS + W_KINDS + C_KINDS:
                    if applicable(kind, ck):
                        for variant in ("close+connect", "connect", "close+connect+stale"):
                            yield {"scn": name, "api": api, "k": k, "kind": kind, "variant": variant}


def check_case(c):
    name, api, k, kind = c["scn"], c["api"], c["k"], c["kind"]
    dev, conn, ops = SCENARIOS[name]
    marks, kinds = profile(name, api)
    # the op (0 = connect) during which call k happens
    j = max(i for i in range(len(marks) - 1) if marks[i] <= k)
    first_call_of_op = (k == marks[j])
    faulted_ops = ops[:j]            # scenario ops up to and including the faulted one (op 0 is the connect)
    recovery = ([{"op": "close"}] if c["variant"].startswith("close+connect") else []) + [dict(conn, op="connect")] + [dict(o) for o in ops]
    stale = c["variant"].endswith("+stale")     # late packets of the broken session (its streams' OKAY/WRTE/CLSE) arrive right behind the new CNXN
    faults = {str(k): kind}
    k2 = c.get("k2")
    scn = {"api": api, "device": dev, "connect": conn, "ops": [dict(o) for o in faulted_ops] + recovery,
           "transport": {"flavour": "raises", "faults": faults, "max_calls": 100000, "log_calls": False},
           "fresh_sim_on_reconnect": True, "healthy_device": dict(dev, maxdata=HEALTHY_MAXDATA), "stale_replay": stale}
    n_faulted = 1 + len(faulted_ops)
    marks2 = []
    lockf = CheckingAsyncLock if api == "async" else CheckingLock

    def before(o, i, op):
        marks2.append(o.core.ncalls)
        if k2 is not None and i == n_faulted:
            o.core.faults[o.core.ncalls + k2] = c["kind2"]

    second = None
    if k2 is not None:
        # a second recovery follows the (possibly failing) first one
        scn["ops"] = scn["ops"] + [dict(o) for o in recovery]
    out = runner.run(scn, lock_factory=lockf, before_op=before)
    info = {"classes": [name, kind, c["variant"], api], "nontrivial": not first_call_of_op, "sample": dict(c)}
    if k2 is not None:
        info["classes"].append("fault-pair")
    if out.watchdog:
        return Violation("non-termination", "%r: %s" % (c, out.watchdog)), info
    results = out.results
    allops = out.ops
    # 1. the faulted session: every op raises or returns the model's value
    for i in range(n_faulted):
        res = results[i]
        if "exc" in res:
            if res["exc"] == "LockStillHeld":
                return Violation("lock-left-held", "%r: op %d: %s" % (c, i, res["msg"])), info
            continue
        v = expect.compare(scn, allops[i], res, dev)
        if v is not None:
            return Violation("wrong-result-under-fault", "%r: op %d %r returned a wrong value: %s" % (c, i, allops[i]["op"], v.detail)), info
    # 2. recovery (the last len(recovery) ops must all behave as on a healthy device)
    final = results[len(results) - len(recovery):]
    final_ops = allops[len(allops) - len(recovery):]
    mid = results[n_faulted:len(results) - len(recovery)]
    for res in mid:
        if res.get("exc") == "LockStillHeld":
            return Violation("lock-left-held", "%r: during the first recovery: %s" % (c, res["msg"])), info
    for op, res in zip(final_ops, final):
        if res.get("exc") == "LockStillHeld":
            return Violation("lock-left-held", "%r: recovery op %r: %s" % (c, op["op"], res["msg"])), info
        v = expect.compare(scn, op, res, dev)
        if v is not None:
            return Violation("recovery-failed", "%r: after the fault, recovery op %r misbehaved: %s" % (c, op["op"], v.detail)), info
    if not out.device.available:
        return Violation("recovery-failed", "%r: device not available after the recovery" % (c,)), info
    for v_ in out.sims[-1].violations:
        if v_.rule == "write-exceeds-maxdata":
            return Violation("stale-maxdata-after-reconnect", "%r: after reconnecting to a device with maxdata=%d the host sent a larger WRTE: %r" % (c, HEALTHY_MAXDATA, v_)), info
    # auxiliary: nothing of the broken session survives in the packet store
    store = getattr(getattr(out.device, "_io_manager", None), "_packet_store", None)
    if store is not None and k2 is None and c.get("check_store", True) and not stale:
        try:
            leftover = len(store)
        except Exception:  # noqa
            leftover = 0
        stale_expected = 1 if any(o.get("take") for o in ops) else 0
        if leftover > stale_expected:
            return Violation("stale-packets-survive-reconnect", "%r: %d streams with parked packets after close/connect/replay" % (c, leftover)), info
    for r in results[:n_faulted]:
        if "exc" in r:
            info["classes"].append("faulted-op-raised:" + r["exc"])
    return None, info


@st.composite
def pairs(draw):
    name = draw(st.sampled_from(sorted(SCENARIOS)))
    api = draw(st.sampled_from(["sync", "async"]))
    marks, kinds = profile(name, api)
    combos = [(i, x) for i, ck in enumerate(kinds) for x in R_KINDS + W_KINDS + C_KINDS if applicable(x, ck)]
    k, kind = draw(st.sampled_from(combos))
    k2 = draw(st.integers(0, len(kinds) - 1))
    return {"scn": name, "api": api, "k": k, "kind": kind, "variant": draw(st.sampled_from(["close+connect", "connect"])),
            "k2": k2, "kind2": draw(st.sampled_from(R_KINDS + W_KINDS))}


def replay(part, case):
    if part == "tcp-reset":
        from .. import sockcheck
        return sockcheck.check_reset_case(case)[0]
    return check_case(case)[0]


def run(tier, seed):
    t0 = time.time()
    quick = tier == "quick"
    for name in SCENARIOS:
        for api in ("sync", "async"):
            profile(name, api)

    def items(shard, nshards):
        for i, c in enumerate(grid()):
            if i % nshards == shard:
                yield c

    col = harness.corpus_part(ID, "single", check_case)
    col.merge(harness.enumeration_part("single", items, check_case))
    col.merge(harness.hypothesis_part("pairs", pairs(), check_case, 1500 if quick else 150000, seed, shrink=not quick))
    from .. import sockcheck
    col.merge(harness.hypothesis_part("tcp-reset", sockcheck.reset_cases(), sockcheck.check_reset_case, 48 if quick else 1600, seed))
    return harness.finish(ID, tier, seed, LEVEL, col, RULE, ASSUMPTIONS, t0, exhaustive=True,
                          extra={"single_fault_sweep_complete": True, "transport_calls_per_scenario": {n: len(profile(n, "sync")[1]) for n in SCENARIOS}})
