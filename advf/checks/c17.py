"""C17 -- key material is what adbd expects: signatures verify, public key blob is correct."""
import base64
import hashlib
import os
import re
import shutil
import tempfile
import time

from hypothesis import strategies as st

from .. import env, harness, wire
from ..harness import Violation

L = env.lib()

ID = "C17"
LEVEL = "exploration"
RULE = ("Hypothesis-generated (key, token list): keys are (a) fresh keygen() pairs on fresh paths or written over the previous pair at one reused path, under file names with dots/spaces (optionally next to a different key pair named without the last extension), with extra signer objects created and discarded before signing, and (b) seeded 2048-bit keys built from a drawn seed (deterministic Miller-Rabin prime search, "
        "PKCS#8 PEM written to disk, write_public_keyfile), also with public exponent 3 and 65537; tokens: all-zero, all-0xFF, drawn 20-byte strings. the login name and host name keygen sees are drawn per case (none/empty/a name; os.getlogin raising as in a daemon). Oracle: .pub == base64(524-byte blob) + ' user@host' naming that login and host whenever they exist; "
        "blob: 64 words, n*n0inv == -1 mod 2^32, little-endian modulus == n, rr == 2^4096 mod n, exponent == e (all recomputed with Python integers); for each of the three signer classes loaded from the "
        "files, Sign(token) == the unique RSASSA-PKCS1-v1_5 signature of the token taken as a SHA-1 digest (pow(EM,d,n), own EMSA encoding) and cryptography's verify(..., Prehashed(SHA1)) accepts it. "
        "Part `handshake`: connect() (sync and async) with each signer class against the device model, which issues drawn tokens (all-zero, all-0xFF, leading/trailing zero bytes, random) and verifies every AUTH(SIGNATURE) as adbd does under the blob's key; optionally a key the device does not know is tried first: the known key is accepted at its first signature and the public key is never offered. "
        "Non-trivial: every (key, token) with a drawn token. Distinct = (key fingerprint, token).")
ASSUMPTIONS = ["Python integer arithmetic and cryptography's verifier are the trusted base", "keygen() uses OpenSSL randomness (not seedable): a failing key's PEM is stored in the replay file"]

_REUSED = []
SMALL_PRIMES = [p for p in range(3, 2000, 2) if all(p % q for q in range(3, int(p ** 0.5) + 1, 2))]


def prng_stream(seed):
    i = 0
    while True:
        yield hashlib.sha512(b"advf-c17:%d:%d" % (seed, i)).digest()
        i += 1


def is_probable_prime(n, rounds=12):
    if n < 2:
        return False
    for p in SMALL_PRIMES:
        if n % p == 0:
            return n == p
    d, r = n - 1, 0
    while d % 2 == 0:
        d //= 2
        r += 1
    for a in [2, 3, 5, 7, 11, 13, 17, 19, 23, 29, 31, 37][:rounds]:
        x = pow(a, d, n)
        if x in (1, n - 1):
            continue
        for _ in range(r - 1):
            x = pow(x, 2, n)
            if x == n - 1:
                break
        else:
            return False
    return True


def seeded_prime(stream, bits, e):
    while True:
        raw = b"".join(next(stream) for _ in range(bits // 512 + 1))[:bits // 8]
        c = int.from_bytes(raw, "big") | (3 << (bits - 2)) | 1
        for _ in range(4000):
            if (c - 1) % e != 0 and is_probable_prime(c):
                return c
            c += 2


def seeded_key_pem(seed, e):
    from cryptography.hazmat.primitives import serialization
    from cryptography.hazmat.primitives.asymmetric import rsa
    stream = prng_stream(seed)
    while True:
        p = seeded_prime(stream, 1024, e)
        q = seeded_prime(stream, 1024, e)
        n = p * q
        if p != q and n.bit_length() == 2048:
            break
    phi = (p - 1) * (q - 1)
    d = pow(e, -1, phi)
    nums = rsa.RSAPrivateNumbers(p=p, q=q, d=d, dmp1=d % (p - 1), dmq1=d % (q - 1), iqmp=pow(q, -1, p), public_numbers=rsa.RSAPublicNumbers(e, n))
    key = nums.private_key()
    return key.private_bytes(serialization.Encoding.PEM, serialization.PrivateFormat.PKCS8, serialization.NoEncryption())


def cases():
    tok = st.one_of(st.binary(min_size=20, max_size=20), st.sampled_from([b"\0" * 20, b"\xff" * 20, b"\x80" + b"\0" * 19, bytes(range(20))]))
    return st.fixed_dictionaries({
        "kind": st.sampled_from(["keygen", "keygen", "seeded"]),
        "seed": st.integers(0, 2 ** 40),
        "e": st.sampled_from([65537, 65537, 3, 17]),
        "tokens": st.lists(tok, min_size=6, max_size=20),
        "reuse_path": st.booleans(),      # write the key pair over the previous pair at one fixed path ("existing files will be overwritten")
        "name": st.sampled_from(["adbkey", "adbkey", "adbkey.new", "192.168.1.5", "key.v2.pem", "my key"]),      # key file names (dots and spaces are ordinary characters)
        "decoy": st.booleans(),           # another, different key pair sits next to it under the name without the last extension
        "drop_temp_signers": st.booleans(),   # a second signer object of each class is created and discarded before signing
        # the environment the comment is taken from: login name (None = whatever this process has; a daemon has none: os.getlogin() raises) and host name
        "login": st.sampled_from([None, None, "raise-oserror", "raise-fnf", "", "alice"]),
        "host": st.sampled_from([None, None, "", "vm", "build-7.example.org"]),
    })


class _Env(object):
    """Rebinds os.getlogin / socket.gethostname (as seen by keygen) for one case."""

    def __init__(self, case):
        self.login, self.host = case.get("login"), case.get("host")

    def __enter__(self):
        import socket
        self.saved = (os.getlogin, socket.gethostname)
        login, host = self.login, self.host
        if login is not None:
            def getlogin():
                if login == "raise-oserror":
                    raise OSError(25, "Inappropriate ioctl for device")
                if login == "raise-fnf":
                    raise FileNotFoundError(2, "No such file or directory")
                return login
            os.getlogin = getlogin
        if host is not None:
            socket.gethostname = lambda: host
        # what the comment has to name (None = no name available: any non-empty placeholder will do)
        try:
            self.want_user = os.getlogin() or None
        except OSError:
            self.want_user = None
        self.want_host = socket.gethostname() or None
        return self

    def __exit__(self, *a):
        import socket
        os.getlogin, socket.gethostname = self.saved


def check_case(case):
    with _Env(case) as e:
        return _check_case(case, e)


def _check_case(case, environ):
    from adb_shell.auth import keygen as kg
    from adb_shell.auth.sign_pythonrsa import PythonRSASigner
    from adb_shell.auth.sign_cryptography import CryptographySigner
    from adb_shell.auth.sign_pycryptodome import PycryptodomeAuthSigner
    from cryptography.hazmat.primitives import serialization, hashes
    from cryptography.hazmat.primitives.asymmetric import padding, utils
    d = tempfile.mkdtemp(prefix="advf-c17-")
    info = {"classes": [case["kind"]]}
    try:
        path = os.path.join(d, case.get("name", "adbkey"))
        if case.get("decoy") and "." in case.get("name", ""):
            stem = os.path.join(d, os.path.splitext(case["name"])[0])
            kg.keygen(stem)          # e.g. an old `adbkey` next to the rotated `adbkey.new`
        if case.get("reuse_path"):
            base = _REUSED[0] if _REUSED else d           # run() creates (and removes) the shared base directory
            rd = os.path.join(base, "pid-%d" % os.getpid())
            os.makedirs(rd, exist_ok=True)
            path = os.path.join(rd, case.get("name", "adbkey"))
            info["classes"].append("path-reused")
        if case.get("pem"):
            with open(path, "wb") as f:
                f.write(case["pem"])
            kg.write_public_keyfile(path, path + ".pub")
        elif case["kind"] == "keygen":
            kg.keygen(path)
        else:
            with open(path, "wb") as f:
                f.write(seeded_key_pem(case["seed"], case["e"]))
            kg.write_public_keyfile(path, path + ".pub")
            info["classes"].append("e=%d" % case["e"])
        with open(path, "rb") as f:
            pem = f.read()
        case_out = dict(case, pem=pem)
        priv = serialization.load_pem_private_key(pem, None)
        nums = priv.private_numbers()
        n, e, dd = nums.public_numbers.n, nums.public_numbers.e, nums.d
        with open(path + ".pub", "rb") as f:
            pub = f.read()

        def fail(rule, detail):
            v = Violation(rule, detail)
            v.case_override = case_out
            return v, info

        if n.bit_length() != 2048:
            return fail("key-size", "modulus has %d bits" % n.bit_length())
        b64, sep, comment = pub.partition(b" ")
        if not sep or not re.match(rb"^[^@\s]+@\S+$", comment):
            return fail("pub-comment", "public key file does not end in ' user@host': %r" % pub[-40:])
        user, _, host = comment.partition(b"@")
        if (environ.want_user is not None and user != environ.want_user.encode()) or (environ.want_host is not None and host != environ.want_host.encode()):
            return fail("pub-comment", "comment %r does not name the login %r / host %r of this environment" % (comment, environ.want_user, environ.want_host))
        try:
            blob = base64.b64decode(b64, validate=True)
        except Exception as ex:  # noqa
            return fail("pub-not-base64", str(ex))
        if len(blob) != 524:
            return fail("blob-length", "%d != 524" % len(blob))
        f_ = wire.decode_android_pubkey(blob)
        if f_["len"] != 64:
            return fail("blob-len-words", repr(f_["len"]))
        if f_["n"] != n:
            return fail("blob-modulus", "little-endian modulus differs from n")
        if (n * f_["n0inv"]) % (1 << 32) != (1 << 32) - 1:
            return fail("blob-n0inv", "n*n0inv mod 2^32 = %#x, expected 0xffffffff" % ((n * f_["n0inv"]) % (1 << 32)))
        if f_["rr"] != pow(2, 4096, n):
            return fail("blob-rr", "rr != 2^4096 mod n")
        if f_["e"] != e:
            return fail("blob-exponent", "%d != %d" % (f_["e"], e))
        try:
            signers = [("PythonRSASigner", PythonRSASigner.FromRSAKeyPath(path)), ("CryptographySigner", CryptographySigner(path)), ("PycryptodomeAuthSigner", PycryptodomeAuthSigner(path))]
            if case.get("drop_temp_signers"):
                import gc
                temps = [PythonRSASigner.FromRSAKeyPath(path), CryptographySigner(path), PycryptodomeAuthSigner(path)]
                del temps
                gc.collect()
        except Exception as ex:  # noqa
            return fail("signer-load-failed", "loading the signers from %r failed: %s: %s" % (os.path.basename(path), type(ex).__name__, ex))
        for name, s in signers:
            pk = s.GetPublicKey()
            pk = pk.encode() if isinstance(pk, str) else pk
            if pk != pub:
                return fail("signer-public-key", "%s.GetPublicKey() differs from the .pub file" % name)
        fp = hashlib.sha1(blob).hexdigest()[:12]
        hashes_ = []
        for tok in case["tokens"]:
            em = wire.emsa_pkcs1_v15_sha1(tok, 256)
            want = pow(int.from_bytes(em, "big"), dd, n).to_bytes(256, "big")
            for name, s in signers:
                try:
                    sig = s.Sign(tok)
                except Exception as ex:  # noqa
                    return fail("sign-raised", "%s.Sign(%r): %s: %s" % (name, tok, type(ex).__name__, ex))
                sig = bytes(sig)
                if len(sig) != 256 or pow(int.from_bytes(sig, "big"), e, n).to_bytes(256, "big") != em:
                    got = pow(int.from_bytes(sig, "big"), e, n).to_bytes(256, "big") if len(sig) == 256 else b""
                    return fail("signature-does-not-verify", "%s.Sign(%s): pow(sig,e,n) = ..%s, expected EMSA-PKCS1-v1_5(SHA-1 DigestInfo || token) = ..%s" % (name, tok.hex(), got[-40:].hex(), em[-40:].hex()))
                if sig != want:
                    return fail("signers-not-interchangeable", "%s.Sign(%s) is not the deterministic PKCS#1 v1.5 signature" % (name, tok.hex()))
                try:
                    priv.public_key().verify(sig, tok, padding.PKCS1v15(), utils.Prehashed(hashes.SHA1()))
                except Exception as ex:  # noqa
                    return fail("cryptography-verifier-rejects", "%s.Sign(%s): %s" % (name, tok.hex(), type(ex).__name__))
            hashes_.append((fp, tok))
        info["nontrivial"] = True
        info["pairs"] = hashes_
        info["sample"] = {"kind": case["kind"], "e": e, "key": fp, "tokens": [t.hex() for t in case["tokens"][:3]], "n_tokens": len(case["tokens"])}
        return None, info
    finally:
        shutil.rmtree(d, ignore_errors=True)


def replay(part, case):
    if part == "handshake":
        return check_handshake(case)[0]
    return check_case(case)[0]


# ----------------------------------------------------------------------------- the signers inside a real handshake
_HS_KEYS = {}


def hs_cases():
    tok = st.one_of(st.sampled_from([b"\0" * 20, b"\xff" * 20, b"\x17" * 19 + b"\0", b"\0" + b"\x17" * 19, b"\0\0" + bytes(range(16)) + b"\0\0", bytes(range(20))]),
                    st.binary(min_size=20, max_size=20))
    return st.fixed_dictionaries({"api": st.sampled_from(["sync", "async"]), "signer": st.integers(0, 2), "tokens": st.lists(tok, min_size=1, max_size=2),
                                  "reject_first": st.booleans()})


def check_handshake(case):
    """connect() against the device model, which issues the drawn tokens and verifies each AUTH(SIGNATURE) as adbd does (RSASSA-PKCS1-v1_5 over the token taken as
    a SHA-1 digest, under the public key decoded from the .pub blob): a known key is accepted at its first signature -- the public key is never offered."""
    own_dir = None
    if _REUSED and os.path.isdir(os.path.join(_REUSED[0], "hs")):
        d = os.path.join(_REUSED[0], "hs")            # generated once by run() before the shards are forked
    else:
        d = own_dir = tempfile.mkdtemp(prefix="advf-c17-hs-")       # replay of a single case
        make_hs_keys(d)
    try:
        return _check_handshake(case, d)
    finally:
        if own_dir:
            shutil.rmtree(own_dir, ignore_errors=True)


def make_hs_keys(d):
    from adb_shell.auth import keygen as kg
    os.makedirs(d, exist_ok=True)
    kg.keygen(os.path.join(d, "known"))
    kg.keygen(os.path.join(d, "unknown"))


def _check_handshake(case, d):
    from adb_shell.auth.sign_pythonrsa import PythonRSASigner
    from adb_shell.auth.sign_cryptography import CryptographySigner
    from adb_shell.auth.sign_pycryptodome import PycryptodomeAuthSigner
    from .. import runner
    if d not in _HS_KEYS:
        with open(os.path.join(d, "known.pub"), "rb") as f:
            f_ = wire.decode_android_pubkey(base64.b64decode(f.read().split(b" ")[0]))
        _HS_KEYS[d] = (f_["n"], f_["e"])
    n, e = _HS_KEYS[d]

    def verify(sig, token):
        if len(sig) != 256:
            return None
        em = pow(int.from_bytes(sig, "big"), e, n).to_bytes(256, "big")
        return "known" if em == wire.emsa_pkcs1_v15_sha1(token, 256) else None

    def load(name):
        path = os.path.join(d, name)
        if case["signer"] == 0:
            with open(path) as f, open(path + ".pub") as g:
                return PythonRSASigner(g.read(), f.read())
        if case["signer"] == 1:
            return CryptographySigner(path)
        return PycryptodomeAuthSigner(path)

    keys = ([load("unknown")] if case["reject_first"] else []) + [load("known")]
    scn = {"api": case["api"], "device": {"auth": {"mode": "key", "accept": "known"}, "tokens": case["tokens"]}, "_verify": verify,
           "transport": {"flavour": "raises"}, "connect": {"keys": keys, "auth_timeout_s": 0.5}, "ops": []}
    out = runner.run(scn)
    info = {"classes": ["handshake", out.api, ["PythonRSASigner", "CryptographySigner", "PycryptodomeAuthSigner"][case["signer"]]], "nontrivial": True,
            "sample": {"api": out.api, "signer": case["signer"], "tokens": [t.hex() for t in case["tokens"]], "reject_first": case["reject_first"]}}
    res = out.results[0]
    if "exc" in res:
        return Violation("handshake-raised", "connect() with a key the device knows raised %s: %s (tokens %r)" % (res["exc"], res["msg"], [t.hex() for t in case["tokens"]])), info
    if out.sim.pubkey_offered is not None:
        return Violation("known-key-signature-rejected", "the device verifies signatures as adbd does and knows the key, yet the host ended up offering its public key; signatures seen: %r"
                         % ([(t.hex(), acc) for t, _, _, acc, _ in out.sim.sig_log],)), info
    want = 2 if case["reject_first"] else 1
    if len(out.sim.sig_log) != want or not out.sim.sig_log[-1][3]:
        return Violation("known-key-signature-rejected", "expected %d signature(s), the last one accepted; got %r" % (want, [(t.hex(), acc) for t, _, _, acc, _ in out.sim.sig_log])), info
    return None, info


def run(tier, seed):
    t0 = time.time()
    quick = tier == "quick"
    pairs = []

    def fn(case):
        v, info = check_case(case)
        if v is not None and hasattr(v, "case_override"):
            case.update(pem=v.case_override["pem"])
        return v, info

    _REUSED.append(tempfile.mkdtemp(prefix="advf-c17-reused-"))
    try:
        make_hs_keys(os.path.join(_REUSED[0], "hs"))
        col = harness.corpus_part(ID, "keys", check_case)
        col.merge(harness.hypothesis_part("keys", cases(), fn, 160 if quick else 3200, seed, shrink=False,
                                          hash_of=None))
        col.merge(harness.hypothesis_part("handshake", hs_cases(), check_handshake, 640 if quick else 12800, seed, shrink=False))
    finally:
        shutil.rmtree(_REUSED.pop(), ignore_errors=True)
    return harness.finish(ID, tier, seed, LEVEL, col, RULE, ASSUMPTIONS, t0, extra={"note": "evaluations counts (key, token-list) cases; each case signs every token with all three signers"})
