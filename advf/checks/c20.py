"""C20 -- USB transport honours the transport contract on a conforming libusb backend (fake usb1 via sys.modules)."""
import sys
import time

from hypothesis import strategies as st

from .. import env, harness, runner, expect, scenario as sc, fakeusb1
from ..harness import Violation
from ..sim import DeviceSim, Tape
from ..transports import WireCore

L = env.lib()
if L.adb_device.UsbTransport is None or sys.modules.get("usb1") is None or not hasattr(sys.modules["usb1"], "WORLD"):
    raise env.HarnessError("C20 must run in its own process with the fake usb1 installed before adb_shell is imported")
from adb_shell.transport import usb_transport as UT   # noqa: E402

ID = "C20"
LEVEL = "exploration"
RULE = ("Fake python-libusb1 backend injected through sys.modules['usb1'] before adb_shell is imported. (a) Hypothesis-generated call sequences on a UsbTransport constructed directly or obtained through find_adb(serial= / port_path= / first) (connect, bulk_read(n,t), bulk_write(data,t), "
        "close, in any order; timeouts {None,0,0.0004,0.5,3} U floats; read sizes; backend short reads and short writes; a backend USBError of a drawn subclass injected at a drawn transfer index, and "
        "additionally enumerated at EVERY transfer index of a fixed sequence): claimInterface(interface number) on connect; every write goes to the OUT endpoint and every read to the IN endpoint with the "
        "data in order; a read never returns more than requested; timeout= is an int within 1 ms of 1000*t (of 1000*default for None); every USBError surfaces as UsbReadFailedError/UsbWriteFailedError, also when reading the serial number fails as well (device unplugged); "
        "after close() both calls raise those errors, also when the backend raises a USBError inside close() itself. devices optionally list a fastboot interface (ff/42/03) before the ADB one (ff/42/01). (b) whole sessions through AdbDeviceUsb(serial=/port_path=) with 1-3 devices on the bus and the handle wired to the device simulator: results == model, "
        "host packets == the in-memory run. Non-trivial: a sequence/session with >= 1 short transfer or an injected error. Distinct = case hash.")
ASSUMPTIONS = ["fidelity of the hand-written fake (advf/fakeusb1.py) to python-libusb1's documented behaviour", "device simulator for sessions"]

STREAM = bytes((i * 31 + 7) % 256 for i in range(1200000))
ERRS = [fakeusb1.USBErrorTimeout, fakeusb1.USBErrorIO, fakeusb1.USBErrorNoDevice, fakeusb1.USBErrorPipe, fakeusb1.USBError]
TIMEOUTS = [None, 0, 0.0004, 0.5, 3, 10.25]


def timeouts():
    return st.one_of(st.sampled_from(TIMEOUTS), st.floats(0, 60, allow_nan=False))


@st.composite
def seq_cases(draw):
    steps = [("connect",)]
    for _ in range(draw(st.integers(1, 12))):
        k = draw(st.sampled_from(["read", "read", "write", "write", "close", "connect"]))
        if k == "read":
            steps.append(("read", draw(st.one_of(st.sampled_from([1, 24, 4096, 1048576]), st.integers(1, 70000))), draw(timeouts()),
                          draw(st.one_of(st.just(None), st.integers(0, 70000)))))      # backend delivers at most this many bytes (None = as requested)
        elif k == "write":
            steps.append(("write", draw(st.one_of(st.binary(min_size=1, max_size=40), st.integers(1, 70000).map(lambda n: bytes(i % 253 for i in range(n))))), draw(timeouts()),
                          draw(st.one_of(st.just(None), st.integers(1, 70000)))))      # backend accepts at most this many bytes
        elif k == "connect":
            steps.append(("connect", draw(st.sampled_from([None, 0, 0.25, 1.0, 30]))))     # connect's own timeout never becomes the default of later calls
        else:
            steps.append((k,))
    return {"steps": steps, "default_timeout": draw(st.sampled_from([None, 2, 7.5])), "error_at": draw(st.one_of(st.none(), st.integers(0, 10))),
            "error": draw(st.integers(0, len(ERRS) - 1)), "kernel_driver": draw(st.sampled_from([False, True, "notfound"])),
            "close_error": draw(st.sampled_from([None, None, "release", "close"])),       # a USBError raised by the backend inside close()
            "unplugged": draw(st.sampled_from([False, False, True])),                       # reading the serial number fails too (device gone)
            "via_find": draw(st.sampled_from([None, None, "serial", "port_path", "first"])),
            "fastboot_first": draw(st.booleans())}        # the device lists another ff/42 interface (protocol 3, fastboot) before the ADB interface     # obtain the transport through UsbTransport.find_adb(...) instead of constructing it


def check_seq(case):
    import warnings
    W = fakeusb1.WORLD
    W.reset()
    dev = fakeusb1.USBDevice(kernel_driver=case["kernel_driver"], fastboot_first=bool(case.get("fastboot_first")))
    W.devices.append(dev)
    if case["error_at"] is not None:
        dev.errors[case["error_at"]] = ERRS[case["error"]]
    stream = STREAM
    pos = [0]
    written = []
    plan = {"read_cap": None, "write_cap": None}

    def backend_read(length, timeout):
        n = length if plan["read_cap"] is None else min(length, plan["read_cap"])
        out = bytearray(stream[pos[0]:pos[0] + n])
        pos[0] += len(out)
        return out

    def backend_write(data, timeout):
        n = len(data) if plan["write_cap"] is None else min(len(data), plan["write_cap"])
        written.append(data[:n])
        return n

    dev.backend_read, dev.backend_write = backend_read, backend_write
    dev.release_error = case.get("close_error") == "release"
    dev.close_error = case.get("close_error") == "close"
    dev.serial_error = bool(case.get("unplugged"))
    info = {"classes": ["sequence"] + (["close-error:" + case["close_error"]] if case.get("close_error") else [])}
    setting = dev.settings[-1]
    if case.get("via_find") and not case.get("unplugged"):
        kw = {"default_transport_timeout_s": case["default_timeout"]}
        if case["via_find"] == "serial":
            kw["serial"] = dev.serial
        elif case["via_find"] == "port_path":
            kw["port_path"] = [dev.bus] + list(dev.ports)
        tr = UT.UsbTransport.find_adb(**kw)
        info["classes"].append("via-find_adb")
    else:
        tr = UT.UsbTransport(dev, setting, usb_info="fake", default_transport_timeout_s=case["default_timeout"])
    default = case["default_timeout"] if case["default_timeout"] is not None else UT.DEFAULT_TIMEOUT_S
    connected = False
    transfers = 0
    short = False
    injected = False
    for i, step in enumerate(case["steps"]):
        ncalls = len(W.calls)
        try:
            with warnings.catch_warnings():
                warnings.simplefilter("ignore")
                if step[0] == "connect":
                    tr.connect(step[1] if len(step) > 1 else 1.0)
                    new = W.calls[ncalls:]
                    if ("claimInterface", fakeusb1.IFACE) not in new:
                        return Violation("interface-not-claimed", "connect() made backend calls %r" % (new,)), info
                    connected = True
                elif step[0] == "close":
                    tr.close()
                    connected = False
                elif step[0] == "read":
                    _, n, t, cap = step
                    plan["read_cap"] = cap
                    will_fail = connected and dev.errors.get(transfers) is not None
                    before = pos[0]
                    try:
                        data = tr.bulk_read(n, t)
                    except L.exceptions.UsbReadFailedError:
                        if connected:
                            transfers += 1 if len(W.calls) > ncalls else 0
                        if connected and not will_fail:
                            return Violation("read-failed-unexpectedly", "step %d %r" % (i, step)), info
                        injected = injected or will_fail
                        continue
                    if not connected:
                        return Violation("read-after-close-did-not-raise", "step %d %r returned %r" % (i, step[:3], data[:20])), info
                    transfers += 1
                    if will_fail:
                        return Violation("usb-error-swallowed", "backend raised %s during step %d %r but bulk_read returned %r" % (ERRS[case["error"]].__name__, i, step[:3], data[:20])), info
                    call = W.calls[-1]
                    if call[0] != "bulkRead" or call[1] != fakeusb1.EP_IN:
                        return Violation("read-wrong-endpoint", "backend call %r" % (call,)), info
                    if not isinstance(data, bytes):
                        return Violation("read-not-bytes", type(data).__name__), info
                    if len(data) > n:
                        return Violation("read-exceeds-request", "bulk_read(%d) returned %d bytes" % (n, len(data))), info
                    if data != stream[before:before + len(data)] or pos[0] != before + len(data):
                        return Violation("read-data-wrong", "bulk_read(%d): bytes lost or reordered (backend handed out %d, caller got %d)" % (n, pos[0] - before, len(data))), info
                    v = timeout_ok(call[3], t, default, i, step)
                    if v:
                        return v, info
                    if cap is not None and cap < n:
                        short = True
                elif step[0] == "write":
                    _, data, t, cap = step
                    plan["write_cap"] = cap
                    will_fail = connected and dev.errors.get(transfers) is not None
                    nw = len(written)
                    try:
                        ret = tr.bulk_write(data, t)
                    except L.exceptions.UsbWriteFailedError:
                        if connected:
                            transfers += 1 if len(W.calls) > ncalls else 0
                        if connected and not will_fail:
                            return Violation("write-failed-unexpectedly", "step %d" % i), info
                        injected = injected or will_fail
                        continue
                    if not connected:
                        return Violation("write-after-close-did-not-raise", "step %d returned %r" % (i, ret)), info
                    transfers += 1
                    if will_fail:
                        return Violation("usb-error-swallowed", "backend raised during step %d but bulk_write returned %r" % (i, ret)), info
                    call = W.calls[-1]
                    if call[0] != "bulkWrite" or call[1] != fakeusb1.EP_OUT:
                        return Violation("write-wrong-endpoint", "backend call %r" % (call,)), info
                    # implementation-agnostic: however the transport maps one bulk_write onto backend transfers, the bytes the backend accepted
                    # during the call must be exactly the first `ret` bytes of the data, and a full count is required when nothing was short
                    got_w = b"".join(written[nw:])
                    if isinstance(ret, bool) or not isinstance(ret, int) or ret < 0 or ret > len(data):
                        return Violation("write-count-wrong", "bulk_write returned %r for %d bytes" % (ret, len(data))), info
                    if got_w != data[:ret]:
                        return Violation("write-data-wrong", "bulk_write(%d bytes) returned %d but the backend accepted %d bytes that are not data[:%d] (first difference at %d)"
                                         % (len(data), ret, len(got_w), ret, next((k for k, (x, y) in enumerate(zip(got_w, data)) if x != y), min(len(got_w), ret)))), info
                    if (cap is None or cap >= len(data)) and ret != len(data):
                        return Violation("write-count-wrong", "bulk_write returned %r although the backend accepted everything it was offered (%d bytes)" % (ret, len(data))), info
                    v = timeout_ok(call[3], t, default, i, step)
                    if v:
                        return v, info
                    if cap is not None and cap < len(data):
                        short = True
        except (L.exceptions.UsbReadFailedError, L.exceptions.UsbWriteFailedError) as e:
            return Violation("unexpected-usb-failure", "step %d %r: %r" % (i, step[0], e)), info
        except Exception as e:  # noqa
            return Violation("crash", "step %d %r raised %s: %s" % (i, step[:1], type(e).__name__, e)), info
    info["nontrivial"] = short or injected
    if short:
        info["classes"].append("short-transfer")
    if injected:
        info["classes"].append("injected-error")
    info["sample"] = {"steps": [s[:1] + ((len(s[1]),) if s[0] == "write" else s[1:2]) + s[2:] for s in case["steps"]][:10], "default": case["default_timeout"],
                      "error_at": case["error_at"], "error": ERRS[case["error"]].__name__}
    return None, info


def timeout_ok(ms, t, default, i, step):
    want = 1000.0 * (t if t is not None else default)
    if isinstance(ms, bool) or not isinstance(ms, int):
        return Violation("timeout-not-int-ms", "step %d: backend got timeout=%r (%s)" % (i, ms, type(ms).__name__))
    if abs(ms - want) > 1.0:
        return Violation("timeout-not-milliseconds", "step %d: transport_timeout_s=%r (default %r) -> backend timeout=%r ms, expected about %r" % (i, t, default, ms, want))
    return None


def error_sweep_items(shard, nshards):
    """A backend error of every class at EVERY transfer index of a fixed sequence."""
    steps = [("connect",), ("write", b"x" * 24, 1.0, None), ("write", b"payload", 1.0, 3), ("read", 24, 0.5, None), ("read", 4096, None, 100), ("write", b"y" * 24, None, None),
             ("read", 24, 2, 7), ("close",), ("read", 24, 1, None), ("write", b"z", 1, None), ("connect",), ("read", 10, 1, None), ("write", b"w" * 10, 1, None)]
    i = 0
    for k in range(0, 9):
        for e in range(len(ERRS)):
            for kd in (False, True, "notfound"):
                i += 1
                if i % nshards == shard:
                    yield {"steps": steps, "default_timeout": 7.5, "error_at": k, "error": e, "kernel_driver": kd}
                if kd is False:
                    i += 1
                    if i % nshards == shard:
                        yield {"steps": steps, "default_timeout": 7.5, "error_at": k, "error": e, "kernel_driver": kd, "unplugged": True}


# ----------------------------------------------------------------------------- sessions
@st.composite
def session_cases(draw):
    case = draw(sc.session(max_ops=4, big=False, with_wcap=True, with_frag=True))
    case["api"] = "sync"
    case["transport"]["flavour"] = "raises"
    if draw(st.booleans()):
        # a message of several tens of KiB through a backend that accepts at most 10-20 KB per transfer
        case["device"]["maxdata"] = 1048576
        case["ops"].append({"op": "push", "src": {"kind": "bytesio", "content": {"pat": draw(st.binary(min_size=1, max_size=5)), "n": draw(st.sampled_from([40000, 70000]))}},
                            "path": "/usb-big", "mtime": 3, "cb": None})
        case["transport"]["wcap"] = draw(st.sampled_from([[10000], [20000], [16384, 5000], [100000], []]))
    case["usb"] = {"select": draw(st.sampled_from(["serial", "port_path_list", "port_path_str", "first"])), "decoys": draw(st.integers(0, 2)),
                   "default_timeout": draw(st.sampled_from([None, 3.0, 9.0])), "fastboot_first": draw(st.booleans())}
    return case


def run_usb_session(case):
    W = fakeusb1.WORLD
    W.reset()
    clock = env.new_clock()
    dcfg = dict(case.get("device") or {})
    dcfg["_verify"] = runner.fake_verify
    out = runner.Outcome()
    sim = DeviceSim(dcfg, Tape(case.get("dev_tape") or ()), clock)
    out.sims.append(sim)
    out.sim = sim
    core = WireCore(sim, clock, case.get("transport"))
    out.core = core
    out.clock = clock
    out.api = "sync"
    usb = case["usb"]
    target = fakeusb1.USBDevice(serial="TARGET", bus=3, ports=(1, 4), fastboot_first=bool(usb.get("fastboot_first")))
    orig_open = target.open

    def open_():
        h = orig_open()
        core.connect(None)
        return h
    target.open = open_

    def backend_read(length, timeout):
        try:
            return bytearray(core.read(length, None if timeout == 0 else timeout / 1000.0))
        except L.exceptions.TcpTimeoutException:
            raise fakeusb1.USBErrorTimeout()

    def backend_write(data, timeout):
        return core.write(data, None if timeout == 0 else timeout / 1000.0)
    target.backend_read, target.backend_write = backend_read, backend_write
    decoys = [fakeusb1.USBDevice(serial="OTHER%d" % i, bus=1, ports=(i + 1,), adb=(i == 1)) for i in range(usb["decoys"])]

    def silent_read(length, timeout):
        # a device that never answers: the transfer times out (virtual time passes)
        clock.advance(timeout / 1000.0 if timeout else 3600.0)
        raise fakeusb1.USBErrorTimeout()
    for d in decoys:
        d.backend_read = silent_read
    if usb["select"] == "first":
        W.devices.extend([d for d in decoys if not any(s.getClass() == 0xFF for s in d.settings)] + [target] + [d for d in decoys if any(s.getClass() == 0xFF for s in d.settings)])
    else:
        W.devices.extend(decoys + [target])
    kw = {"default_transport_timeout_s": usb["default_timeout"]}
    if usb["select"] == "serial":
        kw["serial"] = "TARGET"
    elif usb["select"] == "port_path_list":
        kw["port_path"] = [3, 1, 4]
    elif usb["select"] == "port_path_str":
        kw["port_path"] = "3-1.4"
    dev = L.adb_device.AdbDeviceUsb(**kw)
    out.device = dev
    ops = runner.all_ops(case)
    out.ops = ops
    import shutil
    try:
        for i, op in enumerate(ops):
            try:
                out.results.append({"ok": runner.run_op_sync(dev, op, i, out)})
            except env.HarnessError:
                raise
            except BaseException as e:  # noqa
                if type(e).__name__ == "Watchdog":
                    out.watchdog = (i, str(e))
                    out.results.append({"exc": "Watchdog", "msg": str(e)})
                    break
                out.results.append(runner.exc_result(e))
        dev.close()
    finally:
        if out.tmpdir:
            shutil.rmtree(out.tmpdir, ignore_errors=True)
    return out


def check_session(case):
    out = run_usb_session(case)
    info = {"classes": ["session", "select:" + case["usb"]["select"]]}
    if out.watchdog:
        info["inconclusive"] = True
        return None, info
    for op, res in zip(out.ops, out.results):
        v = expect.compare(case, op, res, case["device"])
        if v is not None:
            return Violation("usb-session-differs-from-model:" + v.rule, v.detail), info
    ref = runner.run(dict(case, api="sync"))
    a = [(p.cmd, p.arg0, p.arg1, p.data) for p in out.host_packets()]
    b = [(p.cmd, p.arg0, p.arg1, p.data) for p in ref.host_packets()]
    if a != b:
        return Violation("usb-session-traffic-differs-from-in-memory-run", "%d vs %d host packets" % (len(a), len(b))), info
    for c in fakeusb1.WORLD.calls:
        if c[0] == "bulkRead" and c[1] != fakeusb1.EP_IN or c[0] == "bulkWrite" and c[1] != fakeusb1.EP_OUT:
            return Violation("wrong-endpoint", repr(c)), info
    if ("claimInterface", fakeusb1.IFACE) not in fakeusb1.WORLD.calls:
        return Violation("interface-not-claimed", "no claimInterface(%d) during the session" % fakeusb1.IFACE), info
    info["nontrivial"] = out.core.short_writes > 0 or out.core.frag_reads > 0
    if out.core.short_writes:
        info["classes"].append("short-writes")
    if out.core.frag_reads:
        info["classes"].append("short-reads")
    info["sample"] = {"ops": [o["op"] for o in case["ops"]], "usb": case["usb"], "wcap": case["transport"].get("wcap"), "frag": case["transport"].get("frag"),
                      "transfers": sum(1 for c in fakeusb1.WORLD.calls if c[0].startswith("bulk"))}
    return None, info


def replay(part, case):
    if part == "session":
        return check_session(case)[0]
    return check_seq(case)[0]


def run(tier, seed):
    t0 = time.time()
    quick = tier == "quick"
    col = harness.corpus_part(ID, "seq", check_seq)
    col.merge(harness.enumeration_part("seq", error_sweep_items, check_seq))
    col.merge(harness.hypothesis_part("seq", seq_cases(), check_seq, 6000 if quick else 120000, seed, shrink=not quick))
    col.merge(harness.hypothesis_part("session", session_cases(), check_session, 2000 if quick else 40000, seed, shrink=not quick))
    return harness.finish(ID, tier, seed, LEVEL, col, RULE, ASSUMPTIONS, t0)
