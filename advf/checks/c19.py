"""C19 -- buffered packets are kept per stream in FIFO order with correct wildcard lookup."""
import collections
import itertools
import time

import hypothesis
from hypothesis import HealthCheck, settings, strategies as st
from hypothesis.stateful import RuleBasedStateMachine, rule, invariant, precondition, run_state_machine_as_test

from .. import env, harness
from ..harness import Violation, Collector

L = env.lib()
Store = L.hidden_helpers._AdbPacketStore
CLSE, OKAY, WRTE = L.constants.CLSE, L.constants.OKAY, L.constants.WRTE

ID = "C19"
LEVEL = "exploration"
RULE = ("Complete depth-first enumeration of mutator sequences (put x {OKAY,WRTE,CLSE} x pairs, get x every pattern incl. None wildcards for which the model has a match, clear x pairs, clear_all) "
        "with ALL observers (find, find_allow_zeros, `in`, len over every pattern incl. wildcards) evaluated at every node: ids {0,1,2}^2 to depth 3 and ids {0,1}^2 to depth 4 (quick) / depth 4 and 5 (thorough), "
        "each sequence replayed from an empty store; plus a Hypothesis RuleBasedStateMachine (<= 200 steps, ids from {0,1,2,7,2^32-1}). Oracle = reference model (dict pair -> deque), relational where the "
        "statement allows a choice (any matching pair with a pending packet). A CLSE is only put for a pair that has an entry, i.e. for which a packet was parked and not cleared since - its queue may be drained (a CLSE for a pair with no entry is unspecified). "
        "Non-trivial: node whose state has >= 2 pairs with pending packets, or an emptied queue. Distinct = mutator sequence (distinct by construction).")
ASSUMPTIONS = ["reference model in this file", "sequences are replayed from an empty store, so no store internals are touched"]


class Model(object):
    def __init__(self):
        self.q = collections.OrderedDict()     # (a0, a1) -> deque of (cmd, data)
        self.emptied = False

    def pending_pairs(self):
        return [k for k, v in self.q.items() if v]

    @staticmethod
    def match(pat, pair):
        return (pat[0] is None or pat[0] == pair[0]) and (pat[1] is None or pat[1] == pair[1])

    def matches(self, pat):
        return [p for p in self.pending_pairs() if self.match(pat, p)]

    def zero_patterns(self, pat):
        a0, a1 = pat
        return [(a0, a1), (a0, 0), (0, a1), (0, 0)]

    def matches_zeros(self, pat):
        out = []
        for zp in self.zero_patterns(pat):
            for p in self.matches(zp):
                if p not in out:
                    out.append(p)
        return out

    def put(self, a0, a1, cmd, data):
        self.q.setdefault((a0, a1), collections.deque()).append((cmd, data))

    def clear(self, a0, a1):
        self.q.pop((a0, a1), None)

    def clear_all(self):
        self.q.clear()


def observe(store, model, pats):
    """All observers at one node.  Returns a Violation or None."""
    try:
        return _observe(store, model, pats)
    except (Exception, StopIteration) as e:  # noqa -- a look-up never raises, whatever the store holds
        return Violation("lookup-raised", "a look-up (len / find / in / find_allow_zeros) raised %s: %s; pending pairs in the model: %r" % (type(e).__name__, e, model.pending_pairs()))


def _observe(store, model, pats):
    n = len(store)
    want_n = len(model.pending_pairs())
    if n != want_n:
        return Violation("len-wrong", "len(store)=%d, model has %d pairs with pending packets %r" % (n, want_n, model.pending_pairs()))
    for pat in pats:
        m = model.matches(pat)
        got = store.find(pat[0], pat[1])
        if m:
            if got is None or tuple(got) not in m:
                return Violation("find-wrong", "find%r -> %r; pairs with pending packets matching the pattern: %r" % (pat, got, m))
        elif got is not None:
            return Violation("find-phantom", "find%r -> %r but no matching pair has a pending packet (pending: %r)" % (pat, got, model.pending_pairs()))
        if (pat in store) != bool(m):
            return Violation("contains-wrong", "%r in store -> %r, model %r" % (pat, pat in store, bool(m)))
        mz = model.matches_zeros(pat)
        gz = store.find_allow_zeros(pat[0], pat[1])
        if mz:
            if gz is None or tuple(gz) not in mz:
                return Violation("find-allow-zeros-wrong", "find_allow_zeros%r -> %r; candidates %r" % (pat, gz, mz))
        elif gz is not None:
            return Violation("find-allow-zeros-phantom", "find_allow_zeros%r -> %r but nothing matches (pending: %r)" % (pat, gz, model.pending_pairs()))
    return None


def apply(store, model, mut):
    """Apply one mutator to both.  Returns a Violation or None."""
    try:
        return _apply(store, model, mut)
    except (Exception, StopIteration) as e:  # noqa -- put / clear / clear_all never raise
        return Violation("mutator-raised", "%r raised %s: %s" % (mut[:3], type(e).__name__, e))


def _apply(store, model, mut):
    kind = mut[0]
    if kind == "put":
        _, a0, a1, cmd, data = mut
        store.put(a0, a1, cmd, data)
        model.put(a0, a1, cmd, data)
    elif kind == "get":
        _, p0, p1 = mut
        cands = model.matches((p0, p1))
        try:
            cmd, a0, a1, data = store.get(p0, p1)
        except Exception as e:  # noqa
            return Violation("get-raised", "get%r raised %s: %s although the model has matching pairs %r" % ((p0, p1), type(e).__name__, e, cands))
        if (a0, a1) not in cands:
            return Violation("get-wrong-pair", "get%r reported pair %r; pairs with pending packets matching the pattern: %r" % ((p0, p1), (a0, a1), cands))
        want = model.q[(a0, a1)].popleft()
        if (cmd, data) != want:
            return Violation("get-not-fifo", "get%r from pair %r returned %r, oldest pending packet is %r" % ((p0, p1), (a0, a1), (cmd, data), want))
        if cmd == CLSE:
            model.clear(a0, a1)       # retrieving a stream's CLOSE forgets that stream
        elif not model.q[(a0, a1)]:
            model.emptied = True
    elif kind == "clear":
        _, a0, a1 = mut
        store.clear(a0, a1)
        model.clear(a0, a1)
    elif kind == "clear_all":
        store.clear_all()
        model.clear_all()
    return None


def mutators(model, ids, patterns, counter):
    pairs = [(a, b) for a in ids for b in ids]
    for (a0, a1) in pairs:
        for cmd in (OKAY, WRTE):
            yield ("put", a0, a1, cmd, b"d%d" % counter)
        if (a0, a1) in model.q:
            # the pair has an entry: a packet was parked for it and it was not cleared since (its queue may have been drained)
            yield ("put", a0, a1, CLSE, b"")
    for pat in patterns:
        if model.matches(pat):
            yield ("get", pat[0], pat[1])
    for (a0, a1) in pairs:
        yield ("clear", a0, a1)
    yield ("clear_all",)


def replay_seq(seq):
    store, model = Store(), Model()
    for m in seq:
        v = apply(store, model, m)
        if v is not None:
            return None, None, v
    return store, model, None


def dfs(ids, depth, shard, nshards, col, part):
    patterns = [(a, b) for a in list(ids) + [None] for b in list(ids) + [None]]
    counter = [0]

    def rec(seq, d):
        store, model, v = replay_seq(seq)
        if d < 2 and shard != 0 and v is None:
            # shallow nodes belong to shard 0; other shards only pass through them
            if d == depth:
                return True
            for i, m in enumerate(mutators(model, ids, patterns, len(seq))):
                if d == 1:
                    counter[0] += 1
                    if counter[0] % nshards != shard:
                        continue
                if not rec(seq + [m], d + 1) and len(col.violations) >= 3:
                    return False
            return True
        if v is None:
            v = observe(store, model, patterns)
        nt = len(model.pending_pairs()) >= 2 or model.emptied if model is not None else True
        col.count(seq, {"nontrivial": bool(nt), "classes": ["depth%d" % len(seq)], "sample": {"ids": list(ids), "sequence": [list(m) for m in seq]}}, distinct=True)
        if v is not None:
            v.detail = "after %r: %s" % (seq, v.detail)
            harness.handle(col, part, {"ids": list(ids), "seq": [list(m) for m in seq]}, v)
            return False
        if d == depth:
            return True
        for i, m in enumerate(mutators(model, ids, patterns, len(seq))):
            if d == 1:
                # work is split over shards by the index of the length-2 prefix (nodes of depth < 2 are visited by shard 0 only)
                counter[0] += 1
                if counter[0] % nshards != shard:
                    continue
            if not rec(seq + [m], d + 1) and len(col.violations) >= 3:
                return False
        return True

    rec([], 0)


def enumeration(tier):
    quick = tier == "quick"
    plans = [("ids012-depth%d" % (3 if quick else 4), (0, 1, 2), 3 if quick else 4), ("ids01-depth%d" % (5 if quick else 6), (0, 1), 5 if quick else 6)]
    total = Collector()
    for name, ids, depth in plans:
        def shard_fn(shard, ids=ids, depth=depth, name=name):
            col = Collector()
            dfs(ids, depth, shard, harness.NSHARDS, col, "enum")
            col.exhaustive[name] = True
            return col
        total.merge(harness.run_sharded("c19-" + name, shard_fn))
    return total


# ----------------------------------------------------------------------------- stateful machine
IDS = [0, 1, 2, 7, 2 ** 32 - 1]
PATS = [(a, b) for a in IDS + [None] for b in IDS + [None]]


class StoreMachine(RuleBasedStateMachine):
    def __init__(self):
        super().__init__()
        self.store = Store()
        self.model = Model()
        self.n = 0
        self.trace = []

    def _do(self, mut):
        self.trace.append(mut)
        v = apply(self.store, self.model, mut)
        if v is not None:
            raise harness.ViolationFound([list(m) for m in self.trace], v)

    @rule(a0=st.sampled_from(IDS), a1=st.sampled_from(IDS), cmd=st.sampled_from([OKAY, WRTE]))
    def put(self, a0, a1, cmd):
        self.n += 1
        self._do(("put", a0, a1, cmd, b"d%d" % self.n))

    @precondition(lambda self: bool(self.model.q))
    @rule(data=st.data())
    def put_clse(self, data):
        a0, a1 = data.draw(st.sampled_from(list(self.model.q)))
        self._do(("put", a0, a1, CLSE, b""))

    @precondition(lambda self: bool(self.model.pending_pairs()))
    @rule(data=st.data())
    def get(self, data):
        pats = [p for p in PATS if self.model.matches(p)]
        p = data.draw(st.sampled_from(pats))
        self._do(("get", p[0], p[1]))

    @rule(a0=st.sampled_from(IDS), a1=st.sampled_from(IDS))
    def clear(self, a0, a1):
        self._do(("clear", a0, a1))

    @rule()
    def clear_all(self):
        self._do(("clear_all",))

    @invariant()
    def observers_agree(self):
        v = observe(self.store, self.model, PATS)
        if v is not None:
            raise harness.ViolationFound([list(m) for m in self.trace], v)
        STATS["steps"] += 1
        if len(self.model.pending_pairs()) >= 2 or self.model.emptied:
            STATS["nontrivial_steps"] += 1

    def teardown(self):
        STATS["runs"] += 1
        if len(self.trace) >= 2:
            key = harness.codec.case_hash([list(m) for m in self.trace])
            STATS["hashes"].add(key)
            if len(STATS["samples"]) < 2:
                STATS["samples"].append(harness.codec.brief([list(m) for m in self.trace]))


STATS = {"steps": 0, "nontrivial_steps": 0, "runs": 0, "hashes": set(), "samples": []}


def stateful_part(tier, seed):
    n = 40 if tier == "quick" else 1500

    def shard_fn(shard):
        col = Collector()
        STATS.update({"steps": 0, "nontrivial_steps": 0, "runs": 0, "hashes": set(), "samples": []})
        try:
            run_state_machine_as_test(
                hypothesis.seed(seed * 64 + shard)(StoreMachine),
                settings=settings(max_examples=n, stateful_step_count=200, database=None, deadline=None, report_multiple_bugs=False,
                                  suppress_health_check=list(HealthCheck), print_blob=False, verbosity=hypothesis.Verbosity.quiet))
        except harness.ViolationFound as e:
            harness.handle(col, "stateful", {"seq": e.case}, e.violation)
        col.evaluations += STATS["runs"]
        col.hashes |= STATS["hashes"]
        col.classes["stateful-steps"] += STATS["steps"]
        col.classes["stateful-nontrivial-steps"] += STATS["nontrivial_steps"]
        col.samples.extend(STATS["samples"][:1])
        return col

    return harness.run_sharded("c19-stateful", shard_fn)


def replay(part, case):
    seq = [tuple(m) for m in case["seq"]]
    ids = case.get("ids") or IDS
    pats = [(a, b) for a in list(ids) + [None] for b in list(ids) + [None]]
    store, model = Store(), Model()
    for m in seq:
        v = apply(store, model, m)
        if v is not None:
            return v
        v = observe(store, model, pats)
        if v is not None:
            return v
    return None


def run(tier, seed):
    t0 = time.time()
    col = enumeration(tier)
    col.merge(stateful_part(tier, seed))
    return harness.finish(ID, tier, seed, LEVEL, col, RULE, ASSUMPTIONS, t0, exhaustive=True)
