"""C07 -- push delivers the exact file bytes, within protocol size limits."""
import time

from hypothesis import strategies as st

from .. import harness, runner, scenario as sc, common, expect
from ..harness import Violation
from ..sim import make_content

ID = "C07"
LEVEL = "exploration"
RULE = ("Hypothesis-generated pushes: content size from a boundary table around chunk size c and maxdata m "
        "{0,1,c-1,c,c+1,2c,m-9,m-8,m-7,m,3.5c,..} U small ints U 1-3 MiB; maxdata from {4 KiB..1 MiB} U ints; device path (non-ASCII, up to ~1000 bytes); "
        "st_mode; mtime (0 and 32-bit); source in {temp file, BytesIO, temp directory with 1-4 files (cwd elsewhere or inside)}; callback in "
        "{none, recording, raising Exception, raising a BaseException subclass, re-entering the device with stat() (sync)}; withheld sync OKAY; connections established through the signature / public-key paths; a second connect() (no close) to a device announcing another maxdata before the push; both APIs. Oracle: the simulator's sync service reassembles SEND/DATA/DONE; sizes judged per packet; "
        "metamorphic: host packets with callback == without. Non-trivial: >=2 host WRTEs, or a directory, or a callback. Distinct = case hash.")
ASSUMPTIONS = ["device simulator sync service per AOSP SYNC.TXT", "virtual clock for mtime=0"]


exact_fill_sizes = sc.exact_fill_sizes


@st.composite
def cases(draw):
    m = draw(sc.maxdata())
    sizes = sc.boundary_sizes(m)
    big = st.sampled_from([1048576, 1048577, 2 * 1048576 + 5, 3 * 1048576])
    path = draw(sc.device_path(900))
    while len(path.encode()) > 1000:
        path = path[:len(path) // 2]
    if draw(st.sampled_from([False] * 5 + [True])):
        path = "/" + "q" * (draw(st.integers(1008, 1024)) - 1)          # the longest paths of the property's range: 1008..1024 bytes
    mode = draw(st.one_of(st.sampled_from([0o100770, 0o100644, 0, 0o177777, 33272]), st.integers(0, 2 ** 32 - 1)))
    spec_len = len(("%s,%d" % (path, mode)).encode("utf8"))
    size = st.one_of(st.sampled_from(sizes), st.sampled_from(exact_fill_sizes(m, spec_len)), st.sampled_from(sizes), st.integers(0, 300), st.integers(0, 200000), big)
    kind = draw(st.sampled_from(["bytesio", "file", "file", "dir"]))
    if kind == "dir":
        names = draw(st.lists(st.sampled_from(["a.txt", "b", "c d", "ü.bin", "z" * 40]), min_size=1, max_size=4, unique=True))
        src = {"kind": "dir", "files": [(nm, {"pat": draw(st.binary(min_size=1, max_size=5)), "n": draw(st.one_of(st.sampled_from(sizes), st.integers(0, 5000)))}) for nm in names]}
    else:
        src = {"kind": kind, "content": {"pat": draw(st.binary(min_size=1, max_size=11)), "n": draw(size)}}
    op = {"op": "push", "src": src, "path": path, "mode": mode,
          "mtime": draw(st.one_of(st.just(0), st.just(0), sc.u32().filter(lambda x: x != 0))),
          "cb": draw(st.sampled_from([None, "rec", "raise", "raise-base", "reenter"]))}
    if kind == "dir":
        op["chdir_into"] = draw(st.booleans())
    dev = {"maxdata": m, "rids": draw(sc.rid_list(6)), "lag": draw(st.lists(st.integers(0, 2), max_size=3)),
           "zero_clse_reply": draw(st.booleans()), "services": {}}
    if draw(st.sampled_from([False] * 11 + [True])) and kind != "dir":
        dev["push_withhold"] = True
    ops = [op]
    conn = {}
    if draw(st.sampled_from([False] * 5 + [True])):
        # the connection is established through the authentication paths (signature accepted, or all signatures rejected and the public key accepted)
        amode = draw(st.sampled_from(["key", "pubkey"]))
        dev["auth"] = {"mode": amode, "accept": "k1"}
        conn = {"keys": [{"tag": "k0"}, {"tag": "k1"}], "auth_timeout_s": 1.0}
    if draw(st.sampled_from([False, False, False, True])):
        # the object is connected a second time (no close() in between) and the device now announces another maxdata:
        # the limits of the *current* connection apply to the push
        m1 = draw(sc.maxdata())
        dev["maxdata_by_connection"] = [m1, m]
        first = {"op": "push", "src": {"kind": "bytesio", "content": {"pat": b"1st", "n": draw(st.sampled_from([0, 5, 70000]))}}, "path": "/first", "mode": 0o100644, "mtime": 1, "cb": None}
        ops = [first, dict(conn, op="connect"), op]
    total = sum(c["n"] for _, c in src["files"]) if kind == "dir" else src["content"]["n"]
    if kind == "dir" and not op["chdir_into"]:
        # the working directory is some other directory that has sub-directories and files with the same names as the pushed files
        op["cwd_decoys"] = draw(st.sampled_from([None, None, "dirs", "files"]))
    return {"api": draw(st.sampled_from(["sync", "async"])), "device": dev, "dev_tape": draw(sc.dev_tape(12)),
            # the link may accept fewer bytes than offered per write call (it reports the count): the sync stream must come out the same
            "transport": {"flavour": draw(sc.flavour()), "wcap": draw(sc.wcap_tape(total + 2000, p_none=0.5))}, "connect": conn, "ops": ops,
            "t0": draw(st.sampled_from([1000000.0, 1700000000.75, 4294967290.5]))}


def check_case(case):
    out = runner.run(case)
    op = case["ops"][-1]
    res = out.results[-1]
    sim = out.sim
    info = {"classes": [out.api, "src:" + op["src"]["kind"], "cb:%s" % op["cb"]]}
    if out.watchdog:
        info["inconclusive"] = True
        return None, info
    for v in sim.violations:
        if v.rule in ("write-exceeds-maxdata", "sync-data-exceeds-64k"):
            return Violation(v.rule, repr(v)), info
    if len(case["ops"]) > 1:
        # judge the records of the last push only (sims keep one list per simulator)
        sim.pushes = [p_ for p_ in sim.pushes if not p_["spec"].startswith(b"/first,")]
    withheld = case["device"].get("push_withhold")
    if withheld:
        info["classes"].append("okay-withheld")
        if "exc" not in res:
            return Violation("returned-without-sync-okay", "the device never sent the sync OKAY for DONE but push() returned normally"), info
        info["nontrivial"] = True
        info["sample"] = {"withheld": True, "exc": res["exc"]}
        return None, info
    if "exc" in res:
        return Violation("unexpected-exception", "%s: %s  (op %s)" % (res["exc"], res["msg"], _opb(op))), info
    t_lo, t_hi = out.t_ops[-1]
    src = op["src"]
    if src["kind"] == "dir":
        streams = out.op_streams[-1]
        want_mkdir = b"shell:mkdir " + op["path"].encode("utf8")
        if not streams or streams[0].dest != want_mkdir:
            return Violation("dir-push-no-mkdir-first", "first stream of the push is %r, expected %r" % (streams[0].dest if streams else None, want_mkdir)), info
        want = {("%s/%s,%d" % (op["path"], nm, int(op["mode"]))).encode("utf8"): make_content(spec) for nm, spec in src["files"]}
        got = {}
        for rec in sim.pushes:
            if rec["spec"] in got:
                return Violation("dir-file-sent-twice", repr(rec["spec"])), info
            got[rec["spec"]] = rec
        if set(got) != set(want):
            return Violation("dir-wrong-file-set", "expected %r got %r" % (sorted(want), sorted(got))), info
        for spec, rec in got.items():
            if rec["content"] != want[spec]:
                return Violation("push-wrong-content", "file %r: expected %d bytes, device got %d" % (spec, len(want[spec]), len(rec["content"]))), info
            if rec["status"] != "OKAY":
                return Violation("push-status", repr(rec["status"])), info
            if any(c > 65536 for c in rec["chunks"]):
                return Violation("push-data-record-too-large", repr(rec["chunks"])), info
            v = _mtime(op, rec, t_lo, t_hi)
            if v:
                return v, info
    else:
        if len(sim.pushes) != 1:
            return Violation("push-transaction-count", "expected exactly one SEND..DONE transaction, device saw %d" % len(sim.pushes)), info
        rec = sim.pushes[0]
        v = expect.check_push_record(op, rec, (t_lo, t_hi))
        if v:
            return v, info
        # returned normally => the sync OKAY had been completely delivered
        s = out.op_streams[-1][0]
        if not s.written or b"OKAY" not in b"".join(s.written)[-8:]:
            return Violation("returned-before-sync-okay", "push returned normally but the device's OKAY record was not delivered; delivered=%r" % s.written[-2:]), info
    size_total = sum(len(r["content"]) for r in sim.pushes)
    # callback contract
    if op["cb"]:
        recs = out.cb_records.get(len(out.results) - 1, [])
        by_path = {}
        for (p, n, total) in recs:
            by_path.setdefault(p, []).append((n, total))
        for rec in sim.pushes:
            dpath = rec["spec"].rsplit(b",", 1)[0].decode("utf8")
            calls = by_path.get(dpath, [])
            if any(not isinstance(n, int) or isinstance(n, bool) for n, _ in calls):
                return Violation("callback-byte-counts", "callback received a byte count that is not an int: %r" % ([n for n, _ in calls][:4],)), info
            if sum(n for n, _ in calls) != len(rec["content"]):
                return Violation("callback-byte-counts", "callback saw %d bytes for %r, file has %d" % (sum(n for n, _ in calls), dpath, len(rec["content"]))), info
            if any(t != len(rec["content"]) for _, t in calls):
                return Violation("callback-total", "callback total_bytes %r != size %d" % (sorted(set(t for _, t in calls)), len(rec["content"]))), info
        for r_ in out.extra.get("reenter_results", []):
            if tuple(r_) != (0, 0, 0):
                return Violation("reentrant-stat-wrong", "stat() issued from inside the progress callback returned %r" % (r_,)), info
        if op["cb"] == "reenter" and out.api == "sync" and size_total > 0 and not out.extra.get("reenter_results"):
            return Violation("reentrant-stat-failed", "stat() issued from inside the progress callback did not complete (its exception is swallowed by push)"), info
    if op["cb"] and not (op["cb"] == "reenter" and out.api == "sync"):
        # presence/failure of the callback does not change what is sent
        case2 = dict(case)
        op2 = dict(op)
        op2["cb"] = None
        case2["ops"] = case["ops"][:-1] + [op2]
        out2 = runner.run(case2)
        a = [(p.cmd, p.arg0, p.arg1, p.data) for p in out.host_packets()]
        b = [(p.cmd, p.arg0, p.arg1, p.data) for p in out2.host_packets()]
        if src["kind"] == "dir":
            a, b = sorted(a), sorted(b)
        if a != b:
            return Violation("callback-changes-traffic", "host packets differ with and without the progress callback (%d vs %d packets)" % (len(a), len(b))), info
    nwrte = sum(len(s.host_writes) for s in out.op_streams[-1])
    info["nontrivial"] = nwrte >= 2 or src["kind"] == "dir" or bool(op["cb"])
    if nwrte >= 2:
        info["classes"].append("multi-wrte")
    if size_total >= 1048576:
        info["classes"].append("MiB+")
    if op["mtime"] == 0:
        info["classes"].append("mtime0")
    if len(case["ops"]) > 1:
        info["classes"].append("second-connect-other-maxdata")
    if any(len(w) >= case["device"]["maxdata"] - 2 for st_ in out.op_streams[-1] for w in st_.host_writes):
        info["classes"].append("wrte-within-2-of-maxdata")
    info["classes"].append("maxdata<=64K" if case["device"]["maxdata"] <= 65536 else "maxdata>64K")
    info["sample"] = {"op": _opb(op), "maxdata": case["device"]["maxdata"], "host_wrte_sizes": [len(w) for s in out.op_streams[-1] for w in s.host_writes][:8],
                      "records": [r["chunks"][:4] for r in sim.pushes][:3], "api": out.api}
    return None, info


def _mtime(op, rec, lo, hi):
    mt = op.get("mtime", 0)
    if mt:
        if rec["mtime"] != mt:
            return Violation("push-wrong-mtime", "expected %r got %r" % (mt, rec["mtime"]))
    elif not (int(lo) <= rec["mtime"] <= int(hi) + 1):
        return Violation("push-wrong-mtime", "mtime=0 -> expected current time in [%d,%d], got %r" % (lo, hi, rec["mtime"]))
    return None


def _opb(op):
    o = dict(op)
    return o


def replay(part, case):
    return check_case(case)[0]


def run(tier, seed):
    t0 = time.time()
    n = 4000 if tier == "quick" else 50000
    col = harness.corpus_part(ID, "main", check_case)
    col.merge(harness.hypothesis_part("main", cases(), check_case, n, seed, shrink=(tier == "thorough")))
    return harness.finish(ID, tier, seed, LEVEL, col, RULE, ASSUMPTIONS, t0)
