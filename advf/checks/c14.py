"""C14 -- stream ids are non-zero, 32-bit and unique among live streams."""
import time

from hypothesis import strategies as st

from .. import env, harness, runner, conc, expect, common, scenario as sc
from ..harness import Violation

L = env.lib()

ID = "C14"
LEVEL = "exploration"
RULE = ("(a) concurrent: counter start in {0,1,5,2^32-4..2^32-1} set on a fresh connected device (no live streams), then 2-3 concurrent opens (shell / stat / streaming_shell kept open / an OPEN the device never answers / an OPEN answered only after the caller timed out / a caller that closes, reconnects and opens) under the "
        "cooperative thread scheduler with OPCODE-level preemption inside _open (every bytecode of the id allocation is a yield point) plus lock/transport yield points, Hypothesis-generated schedules and "
        "complete enumeration of all schedules with <=1 (quick) / <=2 (thorough) preemptions for 5 workloads x 3 counter starts; asyncio task scheduler for the async API. (b) sequential histories of up to 8 opens "
        "across the 2^32 wrap, some streams kept open. Oracle = monitor: every OPEN arg0 in [1,2^32-1]; no two streams live at the same time share arg0; every operation returns the model's value. "
        "Non-trivial: a preemption fell inside _open, or the run crossed 2^32. Distinct = case hash / (workload, start, plan).")
ASSUMPTIONS = ["the counter is preset through the object's id-counter attribute to reach the wrap without 2^32 opens", "opcode-level tracing via sys.settrace(f_trace_opcodes) in worker threads"]

STARTS = [0, 1, 5, 2 ** 32 - 4, 2 ** 32 - 3, 2 ** 32 - 2, 2 ** 32 - 1]
SV = {b"shell:a": [b"<a1>", b"<a2>"], b"shell:b": [b"<b1>"], b"shell:k": [b"<k1>", b"<k2>", b"<k3>"], b"shell:slow": [b"<s1>", b"<s2>", b"<s3>", b"<s4>"]}
FS = {b"/f": {"content": b"hello", "mode": 0o100644, "mtime": 3}}
OPS = {
    "shell-a": {"op": "shell", "cmd": "a", "decode": False},
    "shell-b": {"op": "shell", "cmd": "b", "decode": False},
    "stat": {"op": "stat", "path": "/f"},
    "keep": {"op": "streaming_shell", "cmd": "k", "decode": False, "take": 1},
    "dead": {"op": "shell", "cmd": "dead", "decode": False, "read_timeout_s": 0.5},      # the device never answers this OPEN: the open fails with a timeout
    # the device accepts this OPEN but answers it only after the caller's read timeout has expired (and then the stream is live on the device)
    "slow": {"op": "shell", "cmd": "slow", "decode": False, "read_timeout_s": 0.3, "transport_timeout_s": 0.1},
    # one caller closes, reconnects and opens a stream that stays open, while other callers are in the middle of their own opens
    "reconnect-keep": {"op": "seq", "ops": [{"op": "close"}, {"op": "connect"}, {"op": "streaming_shell", "cmd": "k", "decode": False, "take": 1}]},
}


def compare(case, op, res):
    """expect.compare, except that the late-answered OPEN may legitimately succeed when enough (virtual) time passed meanwhile."""
    if op.get("cmd") == "slow" and res.get("ok") == b"<s1><s2><s3><s4>":
        return None
    return expect.compare(case, op, res, case["device"])


def id_violation(out):
    for sim in out.sims:
        for v in sim.violations:
            if v.rule in ("open-zero-id", "open-duplicate-live-id"):
                return Violation(v.rule, "%r; OPEN ids so far: %r" % (v, [lid for _, lid, _, _ in sim.opens]))
        for _, lid, _, _ in sim.opens:
            if not (1 <= lid <= 2 ** 32 - 1):
                return Violation("open-id-out-of-range", repr(lid))
    return None


def base_case(api, names, start, dev_tape=(), flavour="raises"):
    return {"api": api, "device": {"services": SV, "fs": FS, "ignore_open": [b"shell:dead"], "open_delay": {b"shell:slow": 0.8}}, "dev_tape": list(dev_tape),
            "transport": {"flavour": flavour, "log_calls": False},
            "connect": {}, "ops": [dict(OPS[n]) for n in names], "_start": start}


def judge(case, r):
    if r.deadlock:
        return Violation("deadlock", r.deadlock)
    if r.budget_exhausted:
        return Violation("livelock", "step budget exhausted")
    v = id_violation(r.out)
    if v is not None:
        return v
    for op, res in zip(case["ops"], r.results):
        if "exc" in res and res["exc"] == "error":      # struct.error: id does not fit 32 bits
            return Violation("open-id-out-of-range", "%s: %s" % (res["exc"], res["msg"]))
    if r.dropped_clse or any(o["op"] == "seq" for o in case["ops"]):
        return None     # K1 (C06) may time an operation out, a concurrent close()/connect() may fail other operations; ids were already judged
    for op, res in zip(case["ops"], r.results):
        v = compare(case, op, res)
        if v is not None:
            return Violation("wrong-result:" + v.rule, v.detail)
    return None


def crossed(start, nopens):
    return start + nopens >= 2 ** 32


@st.composite
def conc_cases(draw, api):
    names = draw(st.lists(st.sampled_from(sorted(OPS)), min_size=2, max_size=3))
    return {"api": api, "names": names, "start": draw(st.sampled_from(STARTS)), "sched": draw(st.lists(st.integers(0, 2), max_size=400)),
            "dev_tape": draw(st.lists(st.integers(0, 3), max_size=12)), "flavour": draw(sc.flavour())}


def inside_open(log):
    return sum(1 for e in log if len(e) > 3 and isinstance(e[3], str) and e[3].startswith("trace:_open"))


def check_conc(c):
    case = base_case(c["api"], c["names"], c["start"], c.get("dev_tape") or (), c.get("flavour", "raises"))
    plan = {int(k): v for k, v in (c.get("plan") or [])} or None
    r = conc.run_concurrent(case, c.get("sched") or (), plan=plan, trace="open" if c["api"] == "sync" else None, trace_opcodes=True,
                            max_steps=60000, local_id_start=c["start"])
    v = judge(case, r)
    # a preemption "inside _open": the worker was switched out at a traced opcode of _open
    pre_in_open = 0
    prev = None
    for e in r.log:
        if prev is not None and e[1] != prev[1] and len(e) > 3 and isinstance(e[3], str) and e[3].startswith("trace:_open"):
            pre_in_open += 1
        prev = e
    info = {"classes": [c["api"], "start:%s" % ("near-2^32" if c["start"] > 100 else "small")],
            "nontrivial": pre_in_open > 0 or crossed(c["start"], len(c["names"])),
            "sample": {"ops": c["names"], "start": c["start"], "api": c["api"], "steps": r.steps, "switches": r.switches, "preemptions_inside_open": pre_in_open,
                       "open_ids": [lid for _, lid, _, _ in r.out.sim.opens], "plan": c.get("plan")}}
    if pre_in_open:
        info["classes"].append("preempted-inside-_open")
    if crossed(c["start"], len(c["names"])):
        info["classes"].append("crossed-2^32")
    info["_log"] = r.log
    return v, info


def strip(fn):
    def g(c):
        v, info = fn(c)
        info.pop("_log", None)
        return v, info
    return g


ENUM_WORKLOADS = [["shell-a", "stat"], ["keep", "shell-b", "stat"], ["stat", "keep"], ["dead", "keep", "stat"], ["stat", "reconnect-keep"]]
ENUM_STARTS = [0, 2 ** 32 - 2, 2 ** 32 - 1]


def enum_items(pmax):
    def gen(shard, nshards):
        idx = 0
        for names in ENUM_WORKLOADS:
            for start in ENUM_STARTS:
                for api in ("sync", "async"):
                    base = {"api": api, "names": names, "start": start, "plan": []}
                    _, info0 = check_conc(base)
                    if shard == 0:
                        yield base
                    alts = [(e[0], w) for e in info0["_log"] for w in e[2] if w != e[1]]
                    for (s1, w1) in alts:
                        idx += 1
                        if idx % nshards != shard:
                            continue
                        c1 = dict(base, plan=[[s1, w1]])
                        yield c1
                        if pmax >= 2:
                            _, info1 = check_conc(c1)
                            for e in info1["_log"]:
                                if e[0] <= s1:
                                    continue
                                # second preemption only at yield points inside _open or at lock operations (the allocation window)
                                tag = e[3] if len(e) > 3 else None
                                if api == "sync" and not (isinstance(tag, str) and (tag.startswith("trace:_open") or tag.startswith("acquire") or tag.startswith("release"))):
                                    continue
                                for w in e[2]:
                                    if w != e[1]:
                                        yield dict(base, plan=[[s1, w1], [e[0], w]])
    return gen


@st.composite
def seq_cases(draw):
    n = draw(st.integers(1, 8))
    return {"api": draw(st.sampled_from(["sync", "async"])), "start": draw(st.sampled_from(STARTS)), "names": draw(st.lists(st.sampled_from(sorted(OPS)), min_size=n, max_size=n)),
            "dev_tape": draw(st.lists(st.integers(0, 3), max_size=10)), "flavour": draw(sc.flavour())}


def check_seq(c):
    case = base_case(c["api"], c["names"], c["start"], c.get("dev_tape") or (), c.get("flavour", "raises"))

    def before(out, i, op):
        if i == 1:
            out.device._local_id = c["start"]
    out = runner.run(case, before_op=before)
    info = {"classes": [c["api"], "sequential"], "nontrivial": crossed(c["start"], len(c["names"])),
            "sample": {"ops": c["names"], "start": c["start"], "api": c["api"], "open_ids": [lid for _, lid, _, _ in out.sim.opens]}}
    if crossed(c["start"], len(c["names"])):
        info["classes"].append("crossed-2^32")
    v = id_violation(out)
    if v is not None:
        return v, info
    for op, res in zip(out.ops[1:], out.results[1:]):
        if res.get("exc") == "error":
            return Violation("open-id-out-of-range", "%s" % res["msg"]), info
        if op["op"] == "seq":
            for sub, sres in zip(op["ops"], res.get("ok") or []):
                v = compare(case, sub, sres)
                if v is not None:
                    return Violation("wrong-result:" + v.rule, v.detail), info
            continue
        v = compare(case, op, res)
        if v is not None:
            return Violation("wrong-result:" + v.rule, v.detail), info
    return None, info


def replay(part, case):
    if part == "seq":
        return check_seq(case)[0]
    return check_conc(case)[0]


def run(tier, seed):
    t0 = time.time()
    quick = tier == "quick"
    if not hasattr(L.adb_device.AdbDevice(conc.runner.MemTransport(conc.runner.WireCore(None, env.new_clock()))), "_local_id"):
        raise env.HarnessError("AdbDevice has no _local_id attribute: cannot preset the stream id counter")
    col = harness.corpus_part(ID, "conc", strip(check_conc))
    col.merge(harness.hypothesis_part("seq", seq_cases(), check_seq, 3000 if quick else 60000, seed, shrink=not quick))
    col.merge(harness.hypothesis_part("conc", conc_cases("sync"), strip(check_conc), 600 if quick else 20000, seed, shrink=False))
    col.merge(harness.hypothesis_part("conc", conc_cases("async"), strip(check_conc), 1500 if quick else 40000, seed, shrink=not quick))
    col.merge(harness.enumeration_part("conc", enum_items(1 if quick else 2), strip(check_conc), distinct=True))
    return harness.finish(ID, tier, seed, LEVEL, col, RULE, ASSUMPTIONS, t0, extra={"preemption_bound_enumerated": 1 if quick else 2})
