"""C03 -- inbound packets are reassembled and validated independent of read fragmentation."""
import os
import re
import subprocess
import sys
import time

from hypothesis import strategies as st

from .. import common, env, expect, harness, runner, scenario as sc, wire
from ..harness import Violation

ID = "C03"
LEVEL = "exploration"
RULE = ("(a) metamorphic: Hypothesis-generated sessions run once with whole reads and once with a generated read-fragmentation tape (1-byte reads, cuts at every header/payload "
        "offset, bounded runs of empty reads, cyclic and one-shot tapes): results (type-strict), exception types and host packets must be identical, the whole-read run must give the model's results (payloads include 64-300 KB of high bytes whose byte sum needs more than 24 bits), and at every bulk_read the requested size "
        "must not exceed what remains of the packet in flight. (b) corruption: one device packet per case gets one payload byte or bit changed, or its header checksum field changed (or zeroed; payloads incl. all-NUL ones whose true checksum is 0) "
        "-> the running operation must raise InvalidChecksumError and the corrupted payload must not reach a result; or its command word replaced by a value outside the seven "
        "-> InvalidCommandError. (c, thorough) coverage-guided fuzzing (atheris) of connect() on raw inbound bytes against a reference parser. "
        "Non-trivial: >= 1 packet delivered in >= 2 reads (a), any corruption case (b). Distinct = case hash.")
ASSUMPTIONS = ["in-memory transport returns fragments of the packet in flight, never across a packet boundary", "read_timeout_s left at its 10 s default so that a few 1 ms empty reads cannot time out"]


@st.composite
def frag_cases(draw):
    case = draw(sc.session(max_ops=4, with_frag=True))
    if draw(st.sampled_from([False, False, True])):
        # the handshake itself under fragmentation: signature and public-key paths, with the documented auth_timeout_s values (None = wait for ever)
        mode = draw(st.sampled_from(["key", "pubkey"]))
        case["device"]["auth"] = {"mode": mode, "accept": "k1"}
        case["connect"] = {"keys": [{"tag": "k0"}, {"tag": "k1"}], "auth_timeout_s": draw(st.sampled_from([None, 0, 0.5, 10.0])), "callback": draw(st.booleans())}
    if draw(st.sampled_from([False] * 5 + [True])):
        # one large payload of high bytes: its byte sum lies around / above 2^24 (65793 * 255 = 2^24 - 1), i.e. the checksum needs more than 24 bits
        for o in case["ops"]:
            if o["op"] in ("shell", "exec_out", "streaming_shell"):
                key = (b"exec:" if o["op"] == "exec_out" else b"shell:") + o["cmd"].encode()
                case["device"]["services"][key] = [draw(st.sampled_from([b"\xff", b"\xff", b"\xfe\xff", b"\x80"])) * draw(st.sampled_from([65793, 65794, 70000, 300000]))]
                o["decode"] = False
                break
    return case


def summarize(out):
    # type-strict: a payload that is `bytes` when it arrived in one read must not become `bytearray` when it arrived in two
    return [common.typed(r) if "exc" not in r else {"exc": r["exc"]} for r in out.results]


K2_RE = re.compile(r"Timeout: read (\d+) of (\d+) bytes")


def check_frag(case):
    v, info = _check_frag(case)
    if v is not None and info.get("_k2"):
        # known finding K2: the deadline of a read passed between two fragments of one block; the bytes already read were thrown away and the
        # connection lost packet synchronisation.  Only a violation that comes with that very event is attributed to K2.
        v = Violation("K2-partial-block-discarded-at-deadline", "%s -- after %s; first symptom: %s: %s" % (info["_k2"][1], info["_k2"][0], v.rule, v.detail[:300]), signature="K2")
    info.pop("_k2", None)
    return v, info


def _check_frag(case):
    base = dict(case)
    base["transport"] = dict(case["transport"], frag=[])
    o1 = runner.run(base)
    o2 = runner.run(case)
    info = {"classes": [o2.api]}
    if o1.watchdog or o2.watchdog:
        info["inconclusive"] = True
        return None, info
    for i, (ra, rb) in enumerate(zip(o1.results, o2.results)):
        m = K2_RE.search(rb.get("msg", "")) if rb.get("exc") == "AdbTimeoutError" else None
        if m and 0 < int(m.group(1)) < int(m.group(2)) and not (ra.get("exc") == "AdbTimeoutError" and K2_RE.search(ra.get("msg", "")) and 0 < int(K2_RE.search(ra["msg"]).group(1))):
            info["_k2"] = ("op %d %r" % (i, o2.ops[i].get("op")), rb["msg"])
            break
    for o, name in ((o1, "whole"), (o2, "fragmented")):
        if o.core.overreads:
            idx, req, rem = o.core.overreads[0]
            return Violation("over-read", "%s run: bulk_read requested %d bytes but only %d remain in the current packet (transport call #%d)" % (name, req, rem, idx)), info
    # absolute part of the oracle: with whole reads every valid packet is accepted and every operation gives the model's result
    for op, res in zip(o1.ops[1:], o1.results[1:]):
        v = expect.compare(case, op, res, case["device"])
        if v is not None:
            return Violation("valid-traffic-wrong-result", "whole reads, no corruption: %s" % v.detail), info
    r1, r2 = summarize(o1), summarize(o2)
    if r1 != r2:
        k = next(i for i, (a, b) in enumerate(zip(r1, r2)) if a != b)
        return Violation("result-depends-on-fragmentation", "op %d %r: whole reads -> %s ; fragmented (%r) -> %s" % (k, o2.ops[k].get("op"), _s(r1[k]), case["transport"]["frag"], _s(r2[k]))), info
    h1 = [(p.cmd, p.arg0, p.arg1, p.data) for p in o1.host_packets()]
    h2 = [(p.cmd, p.arg0, p.arg1, p.data) for p in o2.host_packets()]
    if h1 != h2:
        return Violation("host-traffic-depends-on-fragmentation", "%d vs %d host packets" % (len(h1), len(h2))), info
    d1 = [(p.cmd, p.arg0, p.arg1, p.data) for _, p, _ in o1.sim.device_log]
    d2 = [(p.cmd, p.arg0, p.arg1, p.data) for _, p, _ in o2.sim.device_log]
    if d1 != d2:
        return Violation("delivered-packets-differ", "%d vs %d device packets consumed" % (len(d1), len(d2))), info
    info["nontrivial"] = o2.core.frag_reads > 0
    tape = case["transport"]["frag"]
    vals = tape.get("cycle") if isinstance(tape, dict) else tape
    if vals and 1 in vals:
        info["classes"].append("1-byte-reads")
    if vals and sc.EMPTY_READ in vals:
        info["classes"].append("empty-reads")
    if isinstance(tape, dict):
        info["classes"].append("cyclic-tape")
    info["sample"] = {"ops": [o["op"] for o in case["ops"]], "frag": tape, "reads": o2.core.ncalls, "fragmented_reads": o2.core.frag_reads, "api": o2.api}
    return None, info


@st.composite
def corrupt_cases(draw):
    case = draw(sc.session(max_ops=3, big=False, with_frag=True))
    case["device"]["dup_clse"] = False
    if draw(st.sampled_from([False, False, True])):
        # payloads whose legitimate checksum is 0 (all NUL bytes)
        sv = case["device"].get("services") or {}
        for k in list(sv):
            sv[k] = [b"\0" * len(c) for c in sv[k]]
        for f in (case["device"].get("fs") or {}).values():
            f["content"] = {"pat": b"\0", "n": f["content"]["n"]}
    case["transport"]["corrupt"] = {"k": draw(st.integers(0, 12)), "mode": draw(st.sampled_from(["byte", "bit", "hdr", "hdr-zero", "cmd", "cmd"])),
                                    "pos": draw(st.integers(0, 5000)), "val": draw(st.one_of(st.integers(0, 2 ** 32 - 1), st.sampled_from([0, 0x4e584e42, 0x58585858, 0x45545258]),
                                                                                                 # real ADB / filesync words that are not among the seven commands the library handles
                                                                                                 st.sampled_from([b"STLS", b"FAIL", b"DATA", b"DONE", b"SEND", b"RECV", b"STAT", b"LIST", b"DENT", b"QUIT", b"okay", b"Wrte"]).map(lambda w: int.from_bytes(w, "little")))),
                                    "fix_magic": draw(st.booleans())}
    return case


def check_corrupt(case):
    out = runner.run(case)
    info = {"classes": [out.api, "mode:" + case["transport"]["corrupt"]["mode"]]}
    c = out.core.corrupted
    if out.watchdog and c is None:
        info["inconclusive"] = True
        return None, info
    if c is None:
        info["classes"].append("corruption-not-reached")
        return None, info
    # which op was running when the corrupted packet went on the wire?
    k = next((i for i, (a, b) in enumerate(out.t_ops) if a <= c["t"] <= b), None)
    if k is None:
        info["classes"].append("corruption-not-consumed")
        return None, info
    res = out.results[k]
    mode = case["transport"]["corrupt"]["mode"]
    want = "InvalidCommandError" if mode == "cmd" else "InvalidChecksumError"
    # was the corrupted packet actually read to its end by the host?  (a packet parked on the wire after the op ended does not count)
    consumed = out.core.delivered_packets > c["ordinal"] or mode == "cmd"
    if not consumed:
        info["classes"].append("corruption-not-consumed")
        return None, info
    if res.get("exc") != want:
        return Violation("corruption-not-rejected", "device packet %s was corrupted (%s) during op %d %r; expected %s, got %s"
                         % (c["packet"].brief(), mode, k, out.ops[k].get("op"), want, _s(res))), info
    payload = c["payload"]
    legit = any(payload in w for sim in out.sims for s_ in sim.streams for w in s_.written if w is not c["packet"].data)
    if mode in ("byte", "bit") and len(payload) >= 8 and not legit:
        for r in out.results[k:]:
            if "ok" in r and _contains(r["ok"], payload):
                return Violation("corrupted-payload-delivered", "the altered payload of the corrupted packet appears in a later result"), info
    info["nontrivial"] = True
    info["sample"] = {"corrupt": case["transport"]["corrupt"], "packet": c["packet"].brief(), "op": out.ops[k].get("op"), "exc": res.get("exc"), "api": out.api}
    return None, info


def _contains(val, payload):
    if isinstance(val, (bytes, bytearray)):
        return payload in bytes(val)
    if isinstance(val, list):
        return any(_contains(v, payload) for v in val)
    return False


def _s(x):
    r = repr(x)
    return r if len(r) < 300 else r[:300] + "..."


def replay(part, case):
    if part == "fuzz":
        from ..fuzz import c03_connect
        return c03_connect.replay_case(case)
    return (check_frag if part == "frag" else check_corrupt)(case)[0]


def run(tier, seed):
    t0 = time.time()
    quick = tier == "quick"
    col = harness.corpus_part(ID, "frag", check_frag)
    col.merge(harness.corpus_part(ID, "corrupt", check_corrupt))
    col.merge(harness.hypothesis_part("frag", frag_cases(), check_frag, 2500 if quick else 60000, seed, shrink=not quick))
    col.merge(harness.hypothesis_part("corrupt", corrupt_cases(), check_corrupt, 3000 if quick else 60000, seed, shrink=not quick))
    extra = {}
    try:
        from ..fuzz import c03_connect
    except ImportError:
        c03_connect = None
    if c03_connect is not None:
        fz = c03_connect.campaign(tier, seed, col)
        extra["fuzz"] = fz
    return harness.finish(ID, tier, seed, LEVEL, col, RULE, ASSUMPTIONS, t0, extra=extra)
