"""Check harness: sharded generated-input search, evidence, replay files, known findings.

Exit codes of `python -m advf check`: 0 held, 1 violation (with a VIOLATION line), 2 harness error.
"""
import collections
import json
import multiprocessing
import os
import sys
import time
import traceback

from . import codec
from . import env

NSHARDS = int(os.environ.get("ADVF_SHARDS", "16"))
_OUT = os.environ.get("ADVF_OUT") or env.VERIF      # ADVF_OUT: scratch output root for mutant runs (tools/mutants.py)
EVIDENCE_DIR = os.path.join(_OUT, "evidence")
REPLAY_DIR = os.path.join(_OUT, "replays")
CORPUS_DIR = os.path.join(env.VERIF, "corpus")
KNOWN_FILE = os.path.join(env.VERIF, "known_findings.json")


class Violation(object):
    def __init__(self, rule, detail="", signature=None):
        self.rule = rule
        self.detail = detail if isinstance(detail, str) else repr(detail)
        self.signature = signature      # string matched against known_findings.json, or None

    def bucket(self):
        return self.rule

    def __repr__(self):
        return "%s: %s" % (self.rule, self.detail[:1500])


class ViolationFound(Exception):
    def __init__(self, case, violation):
        Exception.__init__(self, repr(violation))
        self.case = case
        self.violation = violation


class WallClockHang(BaseException):
    """A single case did not finish within CASE_WALL_LIMIT seconds of wall time (e.g. a self-deadlock on a real lock)."""


CASE_WALL_LIMIT = float(os.environ.get("ADVF_CASE_WALL_LIMIT", "90"))


_ARMED = [False]


def _alarm(signum, frame):
    # the timer repeats every second once the limit has passed: code under test may catch the first exception in a `finally:` that blocks again
    if _ARMED[0]:
        raise WallClockHang()


def threading_main():
    import threading
    return threading.current_thread() is threading.main_thread()


def guarded(case_fn):
    """Wrap case_fn with a per-case wall-clock watchdog (SIGALRM in the shard's main thread; lock waits are interruptible)."""
    import signal

    state = {"hung": 0}

    def g(case):
        if state["hung"] >= 3:
            # three cases already hung in this shard: the verdict is in, do not burn the wall-clock limit on every further case
            return None, {"classes": ["skipped-after-hangs"]}
        main = threading_main()
        if main:
            old = signal.signal(signal.SIGALRM, _alarm)
            _ARMED[0] = True
            signal.setitimer(signal.ITIMER_REAL, CASE_WALL_LIMIT, 1.0)
        try:
            try:
                return case_fn(case)
            finally:
                _ARMED[0] = False
        except WallClockHang:
            state["hung"] += 1
            return Violation("operation-hung", "the case did not finish within %.0f s of wall-clock time (deadlock or endless blocking call)" % CASE_WALL_LIMIT), {"classes": ["hung"]}
        finally:
            if main:
                signal.setitimer(signal.ITIMER_REAL, 0)
                signal.signal(signal.SIGALRM, old)
    return g


class Collector(object):
    MAX_SAMPLES = 5

    def __init__(self):
        self.evaluations = 0
        self.hashes = set()
        self.extra_distinct = 0   # non-trivial cases that are distinct by construction (exhaustive enumerations)
        self.classes = collections.Counter()
        self.samples = []
        self.violations = []      # (part, case(jsonable), rule, detail)
        self.known = collections.Counter()
        self.excluded = collections.Counter()
        self.inconclusive = 0
        self.exhaustive = {}
        self.notes = []

    def count(self, case, info, hash_of=None, distinct=False):
        self.evaluations += 1
        for c in info.get("classes", ()):
            self.classes[c] += 1
        if info.get("nontrivial"):
            if distinct:
                self.extra_distinct += 1
                if len(self.samples) < self.MAX_SAMPLES:
                    self.samples.append(codec.brief(info.get("sample", case)))
                return
            h = codec.case_hash(hash_of if hash_of is not None else case)
            if h not in self.hashes:
                self.hashes.add(h)
                if len(self.samples) < self.MAX_SAMPLES:
                    self.samples.append(codec.brief(info.get("sample", case)))
        if info.get("inconclusive"):
            self.inconclusive += 1

    def merge(self, o):
        self.evaluations += o.evaluations
        self.hashes |= o.hashes
        self.extra_distinct += o.extra_distinct
        self.classes.update(o.classes)
        for s in o.samples:
            if len(self.samples) < self.MAX_SAMPLES and s not in self.samples:
                self.samples.append(s)
        self.violations.extend(o.violations)
        self.known.update(o.known)
        self.excluded.update(o.excluded)
        self.inconclusive += o.inconclusive
        self.exhaustive.update(o.exhaustive)
        self.notes.extend(o.notes)
        return self


# ----------------------------------------------------------------------------- known findings
def load_known():
    try:
        with open(KNOWN_FILE) as f:
            d = json.load(f)
    except FileNotFoundError:
        return {}
    return {k["signature"]: k for k in d.get("known", [])}


KNOWN = load_known()


def handle(col, part, case, v):
    """Record a violation (or a known finding).  Returns True if it is a real (unlisted) violation."""
    if v.signature is not None and v.signature in KNOWN:
        col.known[v.signature] += 1
        return False
    col.violations.append((part, codec.to_jsonable(case), v.rule, v.detail))
    return True


# ----------------------------------------------------------------------------- sharded execution
_JOB = {}


def _shard_entry(args):
    name, shard = args
    fn = _JOB[name]
    try:
        return ("ok", fn(shard))
    except env.HarnessError as e:
        return ("harness", "".join(traceback.format_exception(type(e), e, e.__traceback__)))
    except BaseException as e:  # noqa
        return ("harness", "".join(traceback.format_exception(type(e), e, e.__traceback__)))


def run_sharded(name, fn, nshards=None):
    """Run fn(shard) -> Collector in forked workers; merge."""
    nshards = nshards or NSHARDS
    _JOB[name] = fn
    col = Collector()
    if nshards == 1 or os.environ.get("ADVF_INLINE"):
        results = [_shard_entry((name, s)) for s in range(nshards)]
    else:
        import concurrent.futures
        from concurrent.futures.process import BrokenProcessPool
        ctx = multiprocessing.get_context("fork")
        try:
            with concurrent.futures.ProcessPoolExecutor(min(nshards, NSHARDS), mp_context=ctx) as pool:
                results = list(pool.map(_shard_entry, [(name, s) for s in range(nshards)]))
        except BrokenProcessPool as e:
            # a shard process died (e.g. the interpreter crashed): a harness error, never a verdict about the property
            raise env.HarnessError("a shard process of %s died unexpectedly: %r" % (name, e))
    for status, r in results:
        if status != "ok":
            raise env.HarnessError("shard of %s failed:\n%s" % (name, r))
        col.merge(r)
    return col


def hypothesis_part(part, strategy, case_fn, examples, seed, nshards=None, shrink=False, max_rounds=4, hash_of=None):
    """Search `examples` generated cases (split over shards) for a violation of case_fn.

    case_fn(case) -> (Violation | None, info dict)
    After a failure the search is re-run with that failure bucket excluded (and counted), so one
    shallow defect does not hide the next.
    """
    import warnings
    import hypothesis
    from hypothesis import HealthCheck, Phase, given, settings
    warnings.filterwarnings("ignore", category=hypothesis.errors.HypothesisWarning)
    nshards = nshards or NSHARDS
    per = max(1, examples // nshards)
    case_fn = guarded(case_fn)

    def shard_fn(shard):
        col = Collector()
        excluded = set()
        for rnd in range(max_rounds):
            found = {}
            failed = {}

            phases = [Phase.explicit, Phase.generate] + ([Phase.shrink] if shrink else [])

            @hypothesis.seed(seed * 64 + shard)
            @settings(max_examples=per, database=None, deadline=None, report_multiple_bugs=False, derandomize=False,
                      suppress_health_check=list(HealthCheck), phases=phases, print_blob=False,
                      verbosity=hypothesis.Verbosity.quiet)
            @given(strategy)
            def test(case):
                if found:
                    # replays of a failing case inside the same Hypothesis run must give the same verdict even when the
                    # underlying check involves wall-clock behaviour (real sockets): memoise failures by case hash
                    h = codec.case_hash(case)
                    if h in failed:
                        raise ViolationFound(case, failed[h])
                v, info = case_fn(case)
                if not found:
                    col.count(case, info, hash_of(case) if hash_of else None)
                if v is not None:
                    if v.bucket() in excluded:
                        col.excluded[v.bucket()] += 1
                        return
                    if v.signature is not None and v.signature in KNOWN:
                        col.known[v.signature] += 1
                        return
                    found["last"] = (case, v)
                    failed[codec.case_hash(case)] = v
                    raise ViolationFound(case, v)

            try:
                test()
            except ViolationFound:
                case, v = found["last"]
                handle(col, part, case, v)
                excluded.add(v.bucket())
                continue
            except hypothesis.errors.HypothesisException as e:
                if isinstance(e, hypothesis.errors.FlakyFailure) and "last" in found:
                    case, v = found["last"]
                    handle(col, part, case, v)
                    excluded.add(v.bucket())
                    continue
                raise env.HarnessError("hypothesis error in %s: %r" % (part, e))
            break
        return col

    t_part = time.time()
    col = run_sharded(part, shard_fn, nshards)
    if os.environ.get("ADVF_TIMING"):
        sys.stderr.write("[timing] part %s: %.1fs, %d evaluations\n" % (part, time.time() - t_part, col.evaluations))
    return col


def enumeration_part(part, items_fn, case_fn, nshards=None, stop_after=3, hash_of=None, distinct=False):
    """Exhaustive enumeration: items_fn(shard, nshards) yields cases; every one is evaluated.
    distinct=True: the enumerated cases are pairwise distinct by construction (no hashing needed)."""
    nshards = nshards or NSHARDS
    case_fn = guarded(case_fn)

    def shard_fn(shard):
        col = Collector()
        buckets = set()
        for case in items_fn(shard, nshards):
            v, info = case_fn(case)
            col.count(case, info, hash_of(case) if hash_of else None, distinct=distinct)
            if v is not None:
                if v.bucket() in buckets:
                    col.excluded[v.bucket()] += 1
                    continue
                if handle(col, part, case, v):
                    buckets.add(v.bucket())
                    if len(buckets) >= stop_after:
                        break
        return col

    return run_sharded(part, shard_fn, nshards)


def corpus_part(check_id, part, case_fn):
    """Replay saved regression cases first (both tiers)."""
    col = Collector()
    d = os.path.join(CORPUS_DIR, check_id)
    if not os.path.isdir(d):
        return col
    for fn in sorted(os.listdir(d)):
        if not fn.endswith(".json"):
            continue
        with open(os.path.join(d, fn)) as f:
            doc = codec.from_jsonable(json.load(f))
        if doc.get("part") != part:
            continue
        v, info = case_fn(doc["case"])
        info = dict(info)
        info.setdefault("classes", [])
        info["classes"] = list(info["classes"]) + ["corpus"]
        col.count(doc["case"], info)
        if v is not None:
            handle(col, part, doc["case"], v)
    return col


# ----------------------------------------------------------------------------- reporting
def write_replay(check_id, part, case, rule, detail):
    os.makedirs(REPLAY_DIR, exist_ok=True)
    doc = {"property": check_id, "part": part, "rule": rule, "detail": detail[:4000], "case": case}
    body = json.dumps(doc, sort_keys=True, indent=1)
    import hashlib
    path = os.path.join(REPLAY_DIR, "%s-%s.json" % (check_id, hashlib.sha1(body.encode()).hexdigest()[:8]))
    with open(path, "w") as f:
        f.write(body)
    return path


def finish(check_id, tier, seed, level, col, rule, assumptions, t0, exhaustive=None, extra=None):
    """Write the evidence file, print the verdict lines, return the exit code."""
    os.makedirs(EVIDENCE_DIR, exist_ok=True)
    cov = {
        "evaluations": col.evaluations,
        "distinct_nontrivial": len(col.hashes) + col.extra_distinct,
        "rule": rule,
        "samples": col.samples,
        "classes": dict(sorted(col.classes.items())),
        "excluded_by_bucket": dict(col.excluded),
        "known_findings_hit": dict(col.known),
        "inconclusive": col.inconclusive,
    }
    if exhaustive is not None:
        cov["exhaustive"] = bool(exhaustive)
    if col.exhaustive:
        cov["exhaustive_parts"] = col.exhaustive
    if col.notes:
        cov["notes"] = col.notes[:20]
    if extra:
        cov.update(extra)
    ev = {
        "property_id": check_id, "tier": tier, "seed": seed, "level": level, "coverage": cov,
        "assumptions": assumptions, "wall_s": round(time.time() - t0, 2), "violations": len(col.violations),
    }
    with open(os.path.join(EVIDENCE_DIR, "%s.json" % check_id), "w") as f:
        json.dump(ev, f, indent=1, sort_keys=True)
    for sig, n in sorted(col.known.items()):
        k = KNOWN[sig]
        if k["property"] == check_id:
            print("KNOWN-FINDING: property=%s %s %s (%d cases)" % (check_id, k["id"], k["description"], n))
    code = 0
    seen = set()
    for part, case, rule_, detail in col.violations:
        if (part, rule_) in seen:
            continue
        seen.add((part, rule_))
        path = write_replay(check_id, part, case, rule_, detail)
        print("VIOLATION property=%s replay=%s" % (check_id, path))
        print("  part=%s rule=%s" % (part, rule_))
        print("  " + detail[:1200].replace("\n", "\n  "))
        code = 1
    print("%s %s seed=%d: %d evaluations, %d distinct non-trivial, %d violation(s), %.1fs"
          % (check_id, tier, seed, col.evaluations, len(col.hashes) + col.extra_distinct, len(col.violations), time.time() - t0))
    if (len(col.hashes) + col.extra_distinct < 2 or col.evaluations < 1) and code == 0:
        raise env.HarnessError("%s: generator produced %d non-trivial cases" % (check_id, len(col.hashes) + col.extra_distinct))
    sys.stdout.flush()
    return code
