"""Independent ADB wire codec.  Does NOT import adb_shell.

All numeric literals are taken from AOSP system/core/adb/adb.h, protocol.txt and SYNC.TXT.
"""
import struct

A_SYNC = 0x434e5953
A_CNXN = 0x4e584e43
A_AUTH = 0x48545541
A_OPEN = 0x4e45504f
A_OKAY = 0x59414b4f
A_CLSE = 0x45534c43
A_WRTE = 0x45545257

CMD_NAMES = {
    A_SYNC: "SYNC", A_CNXN: "CNXN", A_AUTH: "AUTH", A_OPEN: "OPEN",
    A_OKAY: "OKAY", A_CLSE: "CLSE", A_WRTE: "WRTE",
}
NAME_TO_CMD = {v: k for k, v in CMD_NAMES.items()}

A_VERSION = 0x01000000
MAX_PAYLOAD = 1024 * 1024

AUTH_TOKEN = 1
AUTH_SIGNATURE = 2
AUTH_RSAPUBLICKEY = 3

HEADER = struct.Struct("<6I")
HEADER_SIZE = 24

# sync protocol ids (little-endian 4 ASCII bytes)
def _id(s):
    return s[0] | (s[1] << 8) | (s[2] << 16) | (s[3] << 24)

ID_STAT = _id(b"STAT")
ID_LIST = _id(b"LIST")
ID_SEND = _id(b"SEND")
ID_RECV = _id(b"RECV")
ID_DENT = _id(b"DENT")
ID_DONE = _id(b"DONE")
ID_DATA = _id(b"DATA")
ID_OKAY = _id(b"OKAY")
ID_FAIL = _id(b"FAIL")
ID_QUIT = _id(b"QUIT")
SYNC_NAMES = {ID_STAT: "STAT", ID_LIST: "LIST", ID_SEND: "SEND", ID_RECV: "RECV", ID_DENT: "DENT",
              ID_DONE: "DONE", ID_DATA: "DATA", ID_OKAY: "OKAY", ID_FAIL: "FAIL", ID_QUIT: "QUIT"}
SYNC_DATA_MAX = 64 * 1024


class FramingError(Exception):
    def __init__(self, rule, offset, detail=""):
        Exception.__init__(self, "%s at stream offset %d %s" % (rule, offset, detail))
        self.rule = rule
        self.offset = offset
        self.detail = detail


def payload_sum(data):
    total = 0
    # chunked to stay fast for MiB payloads
    mv = bytes(data)
    total = sum(mv)
    return total & 0xFFFFFFFF


def encode(cmd, arg0, arg1, data=b""):
    """Encode a packet as the device would."""
    data = bytes(data)
    return HEADER.pack(cmd, arg0 & 0xFFFFFFFF, arg1 & 0xFFFFFFFF, len(data), payload_sum(data), cmd ^ 0xFFFFFFFF) + data


class Packet(object):
    __slots__ = ("cmd", "arg0", "arg1", "data", "offset")

    def __init__(self, cmd, arg0, arg1, data, offset=0):
        self.cmd = cmd
        self.arg0 = arg0
        self.arg1 = arg1
        self.data = data
        self.offset = offset

    @property
    def name(self):
        return CMD_NAMES.get(self.cmd, "?%08x" % self.cmd)

    def brief(self):
        d = self.data
        if len(d) > 24:
            ds = "%r...(%d)" % (bytes(d[:24]), len(d))
        else:
            ds = repr(bytes(d))
        return "%s(%d,%d,%s)" % (self.name, self.arg0, self.arg1, ds)

    def __repr__(self):
        return self.brief()


class StreamDecoder(object):
    """Incrementally decode a host->device byte stream into packets.

    Raises FramingError on any deviation from the message format:
      * unknown command word
      * magic != command ^ 0xffffffff
      * data_check != byte sum of the payload (mod 2**32)
      * data_length > MAX_PAYLOAD (1 MiB; adbd drops the connection)
    """

    def __init__(self, max_payload=MAX_PAYLOAD):
        self.buf = bytearray()
        self.offset = 0          # stream offset of buf[0]
        self.max_payload = max_payload
        self.total = 0

    def feed(self, data):
        self.buf += data
        self.total += len(data)
        out = []
        while True:
            if len(self.buf) < HEADER_SIZE:
                break
            cmd, arg0, arg1, dlen, dsum, magic = HEADER.unpack_from(self.buf, 0)
            if cmd not in CMD_NAMES:
                raise FramingError("unknown-command", self.offset, "cmd=0x%08x" % cmd)
            if magic != (cmd ^ 0xFFFFFFFF):
                raise FramingError("bad-magic", self.offset, "cmd=0x%08x magic=0x%08x" % (cmd, magic))
            if dlen > self.max_payload:
                raise FramingError("payload-too-large", self.offset, "len=%d" % dlen)
            if len(self.buf) < HEADER_SIZE + dlen:
                break
            data_ = bytes(self.buf[HEADER_SIZE:HEADER_SIZE + dlen])
            if payload_sum(data_) != dsum:
                raise FramingError("bad-checksum", self.offset, "len=%d sum=%d hdr=%d" % (dlen, payload_sum(data_), dsum))
            out.append(Packet(cmd, arg0, arg1, data_, self.offset))
            del self.buf[:HEADER_SIZE + dlen]
            self.offset += HEADER_SIZE + dlen
        return out

    @property
    def pending(self):
        """Number of bytes of an incomplete trailing frame."""
        return len(self.buf)


# --------------------------------------------------------------------------- sync records
def sync_req(id_, payload):
    return struct.pack("<2I", id_, len(payload)) + payload


def sync_dent(mode, size, mtime, name):
    return struct.pack("<5I", ID_DENT, mode, size, mtime, len(name)) + name


def sync_list_done():
    return struct.pack("<5I", ID_DONE, 0, 0, 0, 0)


def sync_stat(mode, size, mtime):
    return struct.pack("<4I", ID_STAT, mode, size, mtime)


def sync_data(chunk):
    return struct.pack("<2I", ID_DATA, len(chunk)) + chunk


def sync_done():
    return struct.pack("<2I", ID_DONE, 0)


def sync_okay():
    return struct.pack("<2I", ID_OKAY, 0)


def sync_fail(reason):
    return struct.pack("<2I", ID_FAIL, len(reason)) + reason


# --------------------------------------------------------------------------- RSAPublicKey blob
def decode_android_pubkey(blob):
    """Decode the 524-byte Android RSAPublicKey structure (libmincrypt rsa.h)."""
    if len(blob) != 524:
        raise ValueError("blob length %d != 524" % len(blob))
    (nwords, n0inv) = struct.unpack_from("<2I", blob, 0)
    n = int.from_bytes(blob[8:8 + 256], "little")
    rr = int.from_bytes(blob[264:264 + 256], "little")
    (e,) = struct.unpack_from("<I", blob, 520)
    return {"len": nwords, "n0inv": n0inv, "n": n, "rr": rr, "e": e}


SHA1_DIGESTINFO_PREFIX = bytes.fromhex("3021300906052b0e03021a05000414")


def emsa_pkcs1_v15_sha1(token, k):
    """EMSA-PKCS1-v1_5 encoding of a 20-byte SHA-1 digest for a k-byte modulus (RFC 8017 9.2)."""
    t = SHA1_DIGESTINFO_PREFIX + bytes(token)
    ps = b"\xff" * (k - len(t) - 3)
    return b"\x00\x01" + ps + b"\x00" + t
