"""In-memory transports wired to the device simulator (sync and async share WireCore)."""
from . import env
from . import wire
from .sim import Tape

L = env.lib()

EMPTY_READ = 65535      # frag-tape value meaning "return b'' although data is pending"


class Watchdog(BaseException):
    """Operation budget exhausted (transport calls or virtual seconds): non-termination."""


class InjectedFault(Exception):
    pass


class WireCore(object):
    """cfg keys:
    flavour    "raises" (TcpTimeoutException when nothing arrives, like real TCP) | "empty" (returns b'')
    frag       list  read-fragment tape: 0 = as much as requested/available, v = at most v bytes, EMPTY_READ = b''
    wcap       list  per-write-call capacity, cyclic; 0 = unlimited, -1 = accepts nothing (returns 0)
    ret_none   bool  bulk_write returns None (as the suite's fake does) instead of the count
    faults     dict  {call index: kind}   kinds: r_timeout r_reset eof r_short_raise w_pipe w_partial_raise c_refuse
    stall      dict  {"at": k device packets delivered, "kind": silence|eof|trickle|foreign, "delta": s}
    max_calls, max_vtime   budget -> Watchdog
    """

    def __init__(self, sim, clock, cfg=None, sim_factory=None):
        self.sim = sim
        self.clock = clock
        self.cfg = dict(cfg or {})
        self.flavour = self.cfg.get("flavour", "raises")
        self.frag = Tape(self.cfg.get("frag") or ())
        self.wcap = list(self.cfg.get("wcap") or ())
        self.wcap_i = 0
        self.faults = {int(k): v for k, v in (self.cfg.get("faults") or {}).items()}
        self.stall = self.cfg.get("stall")
        self.max_calls = self.cfg.get("max_calls", 400000)
        self.max_vtime = self.cfg.get("max_vtime", 100000.0)
        self.sim_factory = sim_factory
        self.t0 = clock.time()
        self.connected = False
        self.cur = None             # [bytearray remaining, pkt, stream]
        self.calls = []             # (kind, n, timeout, outcome)
        self.ncalls = 0
        self.log_calls = self.cfg.get("log_calls", True)
        self.overreads = []         # (call index, requested, remaining)
        self.delivered_packets = 0
        self.bytes_written = 0
        self.writes_while_closed = 0
        self.reads_while_closed = 0
        self.empty_run = 0
        self.eof = False
        self.pending_raise = None
        self.stall_t = None         # virtual time the stall began
        self.yield_hook = None
        self.connect_hook = None
        self.short_writes = 0
        self.frag_reads = 0
        self.foreign_i = 0
        self.foreign_due = None
        self.timeouts_seen = []     # timeout argument of every call
        self.connect_count = 0
        self.corrupted = None
        self.corrupt_seen = 0
        self.pub_offered_at = []    # call indexes of the header write of AUTH(RSAPUBLICKEY)

    # ------------------------------------------------------------------ bookkeeping
    def _begin(self, kind, n, timeout):
        idx = self.ncalls
        self.ncalls += 1
        if self.ncalls > self.max_calls or self.clock.time() - self.t0 > self.max_vtime:
            raise Watchdog("budget exhausted after %d transport calls, %.3f virtual s" % (self.ncalls, self.clock.time() - self.t0))
        self.timeouts_seen.append(timeout)
        return idx

    def _log(self, kind, n, timeout, outcome):
        if self.log_calls:
            self.calls.append((kind, n, timeout, outcome, self.ncalls - 1))

    def _timeout_exc(self, what, timeout):
        return L.exceptions.TcpTimeoutException("%s timed out (%s s) [mem]" % (what, timeout))

    def _nothing(self, n, timeout, idx):
        """Nothing arrives within the timeout."""
        if timeout is None:
            raise Watchdog("bulk_read(timeout=None) on a silent device blocks for ever")
        if self.flavour == "raises":
            self.clock.advance(max(timeout, 0) + 1e-6)
            self._log("r", n, timeout, "timeout")
            raise self._timeout_exc("Reading", timeout)
        self.clock.advance(max(timeout, 0) + 1e-3)
        self._log("r", n, timeout, 0)
        return b""

    # ------------------------------------------------------------------ API used by the transports
    def connect(self, timeout):
        idx = self._begin("c", 0, timeout)
        f = self.faults.get(idx)
        if self.connect_hook is not None:
            self.connect_hook()
        if f == "c_refuse" or self.cfg.get("refuse_connect"):
            self._log("c", 0, timeout, "refused")
            raise ConnectionRefusedError("[mem] connection refused")
        if self.sim_factory is not None and self.connect_count > 0:
            self.sim = self.sim_factory()
        else:
            self.sim.new_connection()
        self.connect_count += 1
        self.connected = True
        self.cur = None
        self.eof = False
        self.pending_raise = None
        self._log("c", 0, timeout, "ok")

    def close(self):
        self.connected = False
        self.cur = None
        if self.cfg.get("close_raises_once"):
            self.cfg["close_raises_once"] = False
            self._log("x", 0, None, "OSError")
            raise OSError("[mem] close failed (injected)")
        self._log("x", 0, None, "ok")

    def write(self, data, timeout):
        idx = self._begin("w", len(data), timeout)
        if not self.connected:
            self.writes_while_closed += 1
            self._log("w", len(data), timeout, "closed")
            raise OSError("[mem] write on a closed transport")
        f = self.faults.get(idx)
        if f == "w_pipe":
            self._log("w", len(data), timeout, "BrokenPipeError")
            raise BrokenPipeError("[mem] injected")
        if f == "w_timeout":
            self.clock.advance(max(timeout or 0, 0))
            self._log("w", len(data), timeout, "timeout")
            raise self._timeout_exc("Sending", timeout)
        if f == "w_partial_raise":
            k = len(data) // 2
            self.sim.feed(bytes(data[:k]))
            self.bytes_written += k
            self._log("w", len(data), timeout, "partial+BrokenPipeError")
            raise BrokenPipeError("[mem] injected after partial write")
        if len(data) == wire.HEADER_SIZE and data[:4] == b"AUTH" and data[4:8] == b"\x03\x00\x00\x00":
            self.pub_offered_at.append(idx)
        cap = 0
        if self.wcap:
            cap = self.wcap[self.wcap_i % len(self.wcap)]
            self.wcap_i += 1
        # cap: 0 = unlimited, k > 0 = at most k bytes, -1 = nothing accepted this time (the call reports 0: "busy, call again")
        n = len(data) if not cap else (0 if cap < 0 else min(len(data), int(cap)))
        if n < len(data):
            self.short_writes += 1
        self.sim.feed(bytes(data[:n]))
        self.bytes_written += n
        self.clock.advance(self.cfg.get("wdelay") or 1e-6)       # a slow link: every write call takes `wdelay` seconds
        self._log("w", len(data), timeout, n)
        if self.cfg.get("ret_none") and n == len(data):
            return None
        return n

    def _foreign_packet(self):
        self.foreign_i += 1
        k = self.foreign_i % 3
        a0, a1 = 0x7F000000 + self.foreign_i % 5, 0x7E000000 + self.foreign_i % 7
        if k == 0:
            return wire.Packet(wire.A_WRTE, a0, a1, b"foreign-%d" % self.foreign_i)
        if k == 1:
            return wire.Packet(wire.A_OKAY, a0, a1, b"")
        return wire.Packet(wire.A_CLSE, a0, a1, b"")

    def read(self, n, timeout):
        idx = self._begin("r", n, timeout)
        if not self.connected:
            self.reads_while_closed += 1
            self._log("r", n, timeout, "closed")
            raise OSError("[mem] read on a closed transport")
        if self.pending_raise is not None:
            exc, self.pending_raise = self.pending_raise, None
            self._log("r", n, timeout, type(exc).__name__)
            raise exc
        f = self.faults.get(idx)
        if f == "r_timeout":
            self.clock.advance(max(timeout or 0, 0))
            self._log("r", n, timeout, "timeout")
            raise self._timeout_exc("Reading", timeout)
        if f == "r_reset":
            self._log("r", n, timeout, "ConnectionResetError")
            raise ConnectionResetError("[mem] injected")
        if f == "eof":
            self.eof = True
        if f == "r_short_raise":
            self.pending_raise = ConnectionResetError("[mem] injected after short read")
        short_eof = (f == "r_short_eof")
        if self.eof:
            self.clock.advance(1e-3)
            self._log("r", n, timeout, 0)
            return b""

        stall = self.stall
        stalled = stall is not None and self.delivered_packets >= stall["at"] and (self.cur is None or stall["kind"] == "trickle")
        if stalled and self.cur is not None and stall["kind"] == "trickle" and self.cur[3] < stall["at"]:
            stalled = False
        if stalled:
            if self.stall_t is None:
                self.stall_t = self.clock.time()
            kind = stall["kind"]
            if kind == "silence":
                return self._nothing(n, timeout, idx)
            if kind == "eof":
                self.clock.advance(1e-3)
                self._log("r", n, timeout, 0)
                return b""
            if kind == "endless":
                # the device never stops producing output on the operation's own stream (logcat-like) and never closes it
                if self.cur is None:
                    if self.foreign_due is None:
                        self.foreign_due = self.clock.time() + stall.get("delta", 0.05)
                    wait = self.foreign_due - self.clock.time()
                    if wait > 0:
                        if timeout is not None and max(timeout, 0) < wait:
                            return self._nothing(n, timeout, idx)
                        self.clock.advance(wait)
                    self.foreign_due = None
                    st = self.sim.streams[-1]
                    self.foreign_i += 1
                    pkt = wire.Packet(wire.A_WRTE, st.rid, st.lid, b"line %d\n" % self.foreign_i)
                    self.cur = [bytearray(wire.encode(pkt.cmd, pkt.arg0, pkt.arg1, pkt.data)), pkt, "foreign", self.delivered_packets]
            if kind == "foreign":
                if self.cur is None:
                    # traffic for other streams takes time to arrive: the next packet is due `delta` after the previous one
                    if self.foreign_due is None:
                        self.foreign_due = self.clock.time() + stall.get("delta", 0.05)
                    wait = self.foreign_due - self.clock.time()
                    if wait > 0:
                        if timeout is not None and max(timeout, 0) < wait:
                            return self._nothing(n, timeout, idx)
                        self.clock.advance(wait)
                    self.foreign_due = None
                    pkt = self._foreign_packet()
                    self.cur = [bytearray(wire.encode(pkt.cmd, pkt.arg0, pkt.arg1, pkt.data)), pkt, "foreign", self.delivered_packets]
                # falls through to normal delivery of the fabricated packet (not counted as delivered)
            if kind == "trickle":
                if self.cur is None:
                    nxt = self.sim.next_packet()
                    if nxt is None:
                        return self._nothing(n, timeout, idx)
                    pkt, s = nxt
                    self.cur = [bytearray(wire.encode(pkt.cmd, pkt.arg0, pkt.arg1, pkt.data)), pkt, s, self.delivered_packets]
                delta = stall.get("delta", 0.05)
                if timeout is not None:
                    delta = min(delta, max(timeout, 0))
                self.clock.advance(max(delta, 1e-3))
                return self._deliver(n, timeout, 1)

        if self.cur is None:
            nxt = self.sim.next_packet()
            if nxt is None:
                # silent now -- but a slow service may produce output within this read's timeout: then the read simply takes that long
                gap = self.sim.next_ready_in()
                if gap is not None and (timeout is None or gap <= max(timeout, 0)):
                    self.clock.advance(gap + 1e-9)
                    nxt = self.sim.next_packet()
            if nxt is None:
                return self._nothing(n, timeout, idx)
            pkt, s = nxt
            self._load(pkt, s)

        if short_eof:
            # part of the block arrives, then the peer goes away: every later read returns b'' at once
            self.eof = True
            return self._deliver(n, timeout, max(1, min(n, len(self.cur[0])) // 2))
        v = self.frag.draw(65536)
        if v == EMPTY_READ and self.empty_run < 3:
            self.empty_run += 1
            self.clock.advance(1e-3)
            self._log("r", n, timeout, 0)
            return b""
        self.empty_run = 0
        return self._deliver(n, timeout, v if v and v != EMPTY_READ else None)

    def _load(self, pkt, s):
        """Put a device packet on the wire (applying the corruption plan, C03)."""
        raw = bytearray(wire.encode(pkt.cmd, pkt.arg0, pkt.arg1, pkt.data))
        c = self.cfg.get("corrupt")
        if c is not None and self.corrupted is None:
            eligible = bool(pkt.data) if c["mode"] in ("byte", "bit", "hdr", "hdr-zero") else True
            if c["mode"] == "hdr-empty":
                eligible = not pkt.data        # a header-only packet whose checksum field is not zero (stale value)
            if c["mode"] == "hdr-zero" and wire.payload_sum(pkt.data) == 0:
                eligible = False
            if eligible:
                if self.corrupt_seen == c["k"]:
                    if c["mode"] == "byte":
                        i = 24 + c["pos"] % len(pkt.data)
                        raw[i] ^= (c["val"] % 255) + 1
                    elif c["mode"] == "bit":
                        i = 24 + c["pos"] % len(pkt.data)
                        raw[i] ^= 1 << (c["val"] % 8)
                    elif c["mode"] == "hdr":
                        i = 16 + c["pos"] % 4
                        raw[i] ^= (c["val"] % 255) + 1
                    elif c["mode"] == "hdr-empty":
                        raw[16:20] = (((c["val"] % 0xFFFFFFFF) + 1) & 0xFFFFFFFF).to_bytes(4, "little")
                    elif c["mode"] == "hdr-zero":
                        raw[16:20] = b"\0\0\0\0"
                    elif c["mode"] == "cmd":
                        word = c["val"] & 0xFFFFFFFF
                        if word in wire.CMD_NAMES:
                            word ^= 0x20202020
                        raw[0:4] = word.to_bytes(4, "little")
                        if c.get("fix_magic"):
                            raw[20:24] = (word ^ 0xFFFFFFFF).to_bytes(4, "little")
                    self.corrupted = {"packet": pkt, "payload": bytes(raw[24:]), "t": self.clock.time(), "ordinal": self.delivered_packets}
                self.corrupt_seen += 1
        self.cur = [raw, pkt, s, self.delivered_packets]

    def _deliver(self, n, timeout, limit):
        buf, pkt, s, _ = self.cur
        remaining = len(buf)
        if n > remaining:
            self.overreads.append((self.ncalls - 1, n, remaining))
        m = min(n, remaining)
        if limit is not None and limit < m:
            m = max(1, limit)
            self.frag_reads += 1
        out = bytes(buf[:m])
        del buf[:m]
        self.clock.advance(self.cfg.get("frag_delay") or 1e-6)      # frag_delay: every read takes this long (a slow link); always <= the read's timeout
        if not buf:
            self.cur = None
            if s != "foreign":
                self.delivered_packets += 1
                self.sim.delivered(pkt, s)
        self._log("r", n, timeout, m)
        return out


class MemTransport(L.base_transport.BaseTransport):
    def __init__(self, core):
        self.core = core

    def close(self):
        self.core.close()

    def connect(self, transport_timeout_s):
        if self.core.yield_hook:
            self.core.yield_hook("connect")
        self.core.connect(transport_timeout_s)

    def bulk_read(self, numbytes, transport_timeout_s):
        if self.core.yield_hook:
            self.core.yield_hook("read")
        return self.core.read(numbytes, transport_timeout_s)

    def bulk_write(self, data, transport_timeout_s):
        if self.core.yield_hook:
            self.core.yield_hook("write")
        return self.core.write(data, transport_timeout_s)


class MemTransportAsync(L.base_transport_async.BaseTransportAsync):
    def __init__(self, core):
        self.core = core

    async def close(self):
        self.core.close()

    async def connect(self, transport_timeout_s):
        if self.core.yield_hook:
            await self.core.yield_hook("connect")
        self.core.connect(transport_timeout_s)

    async def bulk_read(self, numbytes, transport_timeout_s):
        if self.core.yield_hook:
            await self.core.yield_hook("read")
        return self.core.read(numbytes, transport_timeout_s)

    async def bulk_write(self, data, transport_timeout_s):
        if self.core.yield_hook:
            await self.core.yield_hook("write")
        return self.core.write(data, transport_timeout_s)
