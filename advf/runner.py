"""Execute a scenario (plain JSON-able dict) against AdbDevice or AdbDeviceAsync."""
import asyncio
import io
import os
import shutil
import tempfile

from . import env
from . import wire
from .sim import DeviceSim, Tape, make_content
from .transports import WireCore, MemTransport, MemTransportAsync, Watchdog

L = env.lib()


# ----------------------------------------------------------------------------- fake signers
class FakeSigner(object):
    """Sign(token) = b'SIG<' + tag + b'>' + token   (the simulator 'verifies' by parsing)."""

    def __init__(self, tag, pub_kind="str", log=None):
        self.tag = tag
        self.pub_kind = pub_kind
        self.log = log if log is not None else []

    def Sign(self, data):
        if not isinstance(data, bytes):
            # python-rsa's sign_hash/transform.bytes2int and cryptography's sign() accept `bytes` only
            raise TypeError("FakeSigner.Sign: token must be bytes like the real signers require, got %s" % type(data).__name__)
        self.log.append(("sign", self.tag, bytes(data)))
        return b"SIG<" + self.tag.encode() + b">" + bytes(data)

    def GetPublicKey(self):
        self.log.append(("pub", self.tag))
        pk = "PUBKEY-%s user@host" % self.tag
        return pk if self.pub_kind == "str" else pk.encode()


def fake_verify(sig, token):
    if not sig.startswith(b"SIG<"):
        return None
    try:
        end = sig.index(b">")
    except ValueError:
        return None
    if sig[end + 1:] != token:
        return None
    return sig[4:end].decode()


def expected_pubkey(tag):
    return ("PUBKEY-%s user@host" % tag).encode() + b"\0"


# ----------------------------------------------------------------------------- outcome
class Outcome(object):
    def __init__(self):
        self.results = []        # per op: {"ok": value} | {"exc": name, "msg": str}
        self.excs = []           # raw exception objects (or None)
        self.sim = None
        self.sims = []
        self.core = None
        self.device = None
        self.watchdog = None
        self.cb_records = {}     # op index -> list of (path, n, total)
        self.signer_log = []
        self.auth_cb_calls = 0
        self.available_after = []
        self.t_ops = []          # (t_start, t_end) virtual
        self.tmpdir = None
        self.extra = {}
        self.op_streams = []     # per op: Stream objects opened while it ran

    def host_packets(self):
        out = []
        for s in self.sims:
            out.extend(p for _, p in s.host_log)
        return out


def exc_result(e):
    return {"exc": type(e).__name__, "msg": str(e)[:400]}


def _kw(op, names=("transport_timeout_s", "read_timeout_s", "timeout_s")):
    return {k: op[k] for k in names if k in op}


class CallbackAbort(BaseException):
    """A callback failure that is not an Exception subclass (like KeyboardInterrupt / SystemExit / CancelledError)."""


class _Callback(object):
    """kinds: "rec" records; "raise" raises RuntimeError; "raise-base" raises a BaseException subclass;
    "reenter" (sync API only) runs another filesync operation (stat) on the same device from inside the callback."""

    def __init__(self, kind, rec, out=None):
        self.kind = kind
        self.rec = rec
        self.out = out
        self.busy = False

    def __call__(self, path, n, total):
        self.rec.append((path, n, total))
        if self.kind == "raise":
            raise RuntimeError("callback failure (injected)")
        if self.kind == "raise-base":
            raise CallbackAbort("callback failure (injected, BaseException)")
        if self.kind == "reenter" and self.out is not None and self.out.api == "sync" and not self.busy:
            self.busy = True
            try:
                self.out.extra.setdefault("reenter_results", []).append(tuple(self.out.device.stat("/reenter-probe")))
            finally:
                self.busy = False


def make_callback(kind, out, idx):
    if not kind:
        return None
    rec = out.cb_records.setdefault(idx, [])
    return _Callback(kind, rec, out)


def prepare_push_source(op, out):
    src = op["src"]
    kind = src["kind"]
    if kind == "bytesio":
        return io.BytesIO(make_content(src["content"]))
    if out.tmpdir is None:
        out.tmpdir = tempfile.mkdtemp(prefix="advf-")
    if kind == "missing":
        return os.path.join(out.tmpdir, "no-such-file.bin")
    if kind == "file":
        p = os.path.join(out.tmpdir, "src-%d.bin" % len(os.listdir(out.tmpdir)))
        with open(p, "wb") as f:
            f.write(make_content(src["content"]))
        return p
    if kind == "dir":
        d = os.path.join(out.tmpdir, "dir-%d" % len(os.listdir(out.tmpdir)))
        os.mkdir(d)
        for name, spec in src["files"]:
            with open(os.path.join(d, name), "wb") as f:
                f.write(make_content(spec))
        return d
    raise env.HarnessError("bad push source kind %r" % kind)


def make_decoy_cwd(op, out):
    """A working directory that is NOT the pushed directory but contains entries named like the pushed files (sub-directories, or files with other content)."""
    d = os.path.join(out.tmpdir, "cwd-%d" % len(os.listdir(out.tmpdir)))
    os.mkdir(d)
    for name, _ in op["src"]["files"]:
        if op["cwd_decoys"] == "dirs":
            os.mkdir(os.path.join(d, name))
        else:
            with open(os.path.join(d, name), "wb") as f:
                f.write(b"DECOY-" + name.encode("utf8"))
    return d


class FailingBytesIO(io.BytesIO):
    """A destination whose write() starts failing (disk full) after `ok_writes` successful writes."""

    def __init__(self, ok_writes):
        io.BytesIO.__init__(self)
        self.ok_writes = ok_writes

    def write(self, data):
        if self.ok_writes <= 0:
            raise OSError(28, "No space left on device (injected)")
        self.ok_writes -= 1
        return io.BytesIO.write(self, data)


def prepare_pull_dest(op, out):
    if op.get("dest", "bytesio") == "bytesio":
        return io.BytesIO()
    if op.get("dest") == "failing":
        return FailingBytesIO(op.get("fail_after", 1))
    if out.tmpdir is None:
        out.tmpdir = tempfile.mkdtemp(prefix="advf-")
    if op.get("dest") == "badpath":
        return os.path.join(out.tmpdir, "no-such-dir", "pull.bin")
    return os.path.join(out.tmpdir, "pull-%d.bin" % len(os.listdir(out.tmpdir)))


def read_pull_dest(dest):
    if isinstance(dest, io.BytesIO):
        return dest.getvalue()
    try:
        with open(dest, "rb") as f:
            return f.read()
    except FileNotFoundError:
        return None


def run_async(coro):
    """asyncio.run() without its unbounded clean-up: if the coroutine is abandoned (watchdog), pending tasks get 0.5 s to
    unwind and are then dropped, instead of blocking the harness for ever on a task that cannot finish."""
    import warnings
    loop = asyncio.new_event_loop()
    try:
        asyncio.set_event_loop(loop)
        return loop.run_until_complete(coro)
    finally:
        try:
            pending = [t for t in asyncio.all_tasks(loop) if not t.done()]
            for t in pending:
                t.cancel()
            if pending:
                loop.run_until_complete(asyncio.wait(pending, timeout=0.5))
            loop.run_until_complete(loop.shutdown_asyncgens())
        except BaseException:  # noqa
            pass
        finally:
            asyncio.set_event_loop(None)
            with warnings.catch_warnings():
                warnings.simplefilter("ignore")
                loop.close()


def build(scn, async_=None, lock_factory=None):
    """Create clock, simulator, wire core, transport and device for a scenario."""
    api = scn.get("api", "sync") if async_ is None else ("async" if async_ else "sync")
    clock = env.new_clock(scn.get("t0", 1000000.0))
    out = Outcome()
    dcfg = dict(scn.get("device") or {})
    dcfg["_verify"] = scn.get("_verify", fake_verify)

    def new_sim(cfg=dcfg, tape=None):
        s = DeviceSim(cfg, Tape(scn.get("dev_tape") or ()) if tape is None else tape, clock)
        out.sims.append(s)
        return s

    sim = new_sim()
    factory = None
    if scn.get("fresh_sim_on_reconnect"):
        hcfg = dict(scn.get("healthy_device") or dcfg)
        hcfg["_verify"] = dcfg["_verify"]
        def factory():
            cfg = hcfg
            if scn.get("stale_replay"):
                # what the broken session's streams still had to say is delivered behind the new CNXN (only streams the host really opened there)
                old = out.sims[-1]
                stale = []
                pairs = [(s_.rid, s_.lid) for s_ in old.streams[-3:]]
                for rid, lid in pairs:
                    stale += [(wire.A_OKAY, rid, lid, b""), (wire.A_WRTE, rid, lid, b"STALE-%d" % lid), (wire.A_CLSE, rid, lid, b"")]
                cfg = dict(hcfg, after_cnxn=stale)
            return new_sim(cfg, Tape(scn.get("healthy_tape") or ()))
    core = WireCore(sim, clock, scn.get("transport"), sim_factory=factory)
    mod = L.adb_device_async if api == "async" else L.adb_device
    tr = MemTransportAsync(core) if api == "async" else MemTransport(core)
    dk = dict(scn.get("device_kwargs") or {})
    saved_lock = mod.Lock
    if lock_factory is not None:
        mod.Lock = lock_factory
    try:
        cls = mod.AdbDeviceAsync if api == "async" else mod.AdbDevice
        dev = cls(tr, **dk)
    finally:
        mod.Lock = saved_lock
    out.sim = sim
    out.core = core
    out.device = dev
    out.clock = clock
    out.api = api
    return out


def connect_kwargs(cn, out):
    kw = {}
    keys = cn.get("keys")
    if keys is not None:
        if keys and isinstance(keys[0], dict):
            kw["rsa_keys"] = [FakeSigner(k["tag"], k.get("pub", "str"), out.signer_log) for k in keys]
        else:
            kw["rsa_keys"] = keys      # real signer objects supplied by the check
    for k in ("transport_timeout_s", "auth_timeout_s", "read_timeout_s"):
        if k in cn:
            kw[k] = cn[k]
    if cn.get("callback"):
        def cb(dev):
            out.auth_cb_calls += 1
            out.extra.setdefault("available_in_cb", []).append(out.device.available)
            out.extra.setdefault("cb_host_index", []).append(len(out.core.sim.host_log))
        kw["auth_callback"] = cb
    return kw


# ----------------------------------------------------------------------------- sync execution
def run_op_sync(dev, op, i, out):
    name = op["op"]
    if name == "seq":
        # several operations executed one after the other by the same caller; the value is the list of their outcomes
        res = []
        for sub in op["ops"]:
            try:
                res.append({"ok": run_op_sync(dev, sub, i, out)})
            except (Exception, CallbackAbort) as e:  # noqa
                res.append(exc_result(e))
        return res
    if name == "connect":
        return dev.connect(**connect_kwargs(op, out))
    if name == "close":
        return dev.close()
    if name in ("shell", "exec_out"):
        return getattr(dev, name)(op["cmd"], decode=op.get("decode", True), **_kw(op))
    if name == "root":
        return dev.root(**_kw(op))
    if name == "reboot":
        return dev.reboot(op.get("fastboot", False), **_kw(op))
    if name == "streaming_shell":
        gen = dev.streaming_shell(op["cmd"], decode=op.get("decode", True), **_kw(op, ("transport_timeout_s", "read_timeout_s")))
        if "take" not in op:
            return list(gen)
        items = []
        for x in gen:
            items.append(x)
            if len(items) >= op["take"]:
                break
        gen.close()        # the caller abandons the stream
        return items
    if name == "list":
        return [(bytes(f.filename), f.mode, f.size, f.mtime) for f in dev.list(op["path"], **_kw(op, ("transport_timeout_s", "read_timeout_s")))]
    if name == "stat":
        return tuple(dev.stat(op["path"], **_kw(op, ("transport_timeout_s", "read_timeout_s"))))
    if name == "pull":
        dest = prepare_pull_dest(op, out)
        out.extra.setdefault("pull_dest", {})[i] = dest
        try:
            dev.pull(op["path"], dest, progress_callback=make_callback(op.get("cb"), out, i), **_kw(op, ("transport_timeout_s", "read_timeout_s")))
        finally:
            out.extra.setdefault("pulled", {})[i] = read_pull_dest(dest)
        return out.extra["pulled"][i]
    if name == "push":
        src = prepare_push_source(op, out)
        cwd = os.getcwd()
        if op.get("chdir_into") and isinstance(src, str) and os.path.isdir(src):
            os.chdir(src)
        elif op.get("cwd_decoys") and isinstance(src, str) and os.path.isdir(src):
            os.chdir(make_decoy_cwd(op, out))
        try:
            return dev.push(src, op["path"], st_mode=op.get("mode", 0o100770), mtime=op.get("mtime", 0),
                            progress_callback=make_callback(op.get("cb"), out, i), **_kw(op, ("transport_timeout_s", "read_timeout_s")))
        finally:
            os.chdir(cwd)
    raise env.HarnessError("unknown op %r" % name)


async def run_op_async(dev, op, i, out):
    name = op["op"]
    if name == "seq":
        res = []
        for sub in op["ops"]:
            try:
                res.append({"ok": await run_op_async(dev, sub, i, out)})
            except (Exception, CallbackAbort) as e:  # noqa
                res.append(exc_result(e))
        return res
    if name == "connect":
        return await dev.connect(**connect_kwargs(op, out))
    if name == "close":
        return await dev.close()
    if name in ("shell", "exec_out"):
        return await getattr(dev, name)(op["cmd"], decode=op.get("decode", True), **_kw(op))
    if name == "root":
        return await dev.root(**_kw(op))
    if name == "reboot":
        return await dev.reboot(op.get("fastboot", False), **_kw(op))
    if name == "streaming_shell":
        gen = dev.streaming_shell(op["cmd"], decode=op.get("decode", True), **_kw(op, ("transport_timeout_s", "read_timeout_s")))
        if "take" not in op:
            return [x async for x in gen]
        items = []
        async for x in gen:
            items.append(x)
            if len(items) >= op["take"]:
                break
        await gen.aclose()
        return items
    if name == "list":
        return [(bytes(f.filename), f.mode, f.size, f.mtime) for f in await dev.list(op["path"], **_kw(op, ("transport_timeout_s", "read_timeout_s")))]
    if name == "stat":
        return tuple(await dev.stat(op["path"], **_kw(op, ("transport_timeout_s", "read_timeout_s"))))
    if name == "pull":
        dest = prepare_pull_dest(op, out)
        out.extra.setdefault("pull_dest", {})[i] = dest
        try:
            await dev.pull(op["path"], dest, progress_callback=make_callback(op.get("cb"), out, i), **_kw(op, ("transport_timeout_s", "read_timeout_s")))
        finally:
            out.extra.setdefault("pulled", {})[i] = read_pull_dest(dest)
        return out.extra["pulled"][i]
    if name == "push":
        src = prepare_push_source(op, out)
        cwd = os.getcwd()
        if op.get("chdir_into") and isinstance(src, str) and os.path.isdir(src):
            os.chdir(src)
        elif op.get("cwd_decoys") and isinstance(src, str) and os.path.isdir(src):
            os.chdir(make_decoy_cwd(op, out))
        try:
            return await dev.push(src, op["path"], st_mode=op.get("mode", 0o100770), mtime=op.get("mtime", 0),
                                  progress_callback=make_callback(op.get("cb"), out, i), **_kw(op, ("transport_timeout_s", "read_timeout_s")))
        finally:
            os.chdir(cwd)
    raise env.HarnessError("unknown op %r" % name)


def _nstreams(out):
    return sum(len(s.streams) for s in out.sims)


def _streams_since(out, n0):
    allst = [st for s in out.sims for st in s.streams]
    return allst[n0:]


def _record(out, i, fn_result=None, exc=None, t0=None, n0=0):
    out.op_streams.append(_streams_since(out, n0))
    if exc is None:
        out.results.append({"ok": fn_result})
        out.excs.append(None)
    else:
        out.results.append(exc_result(exc))
        out.excs.append(exc)
    out.available_after.append(bool(out.device.available))
    out.t_ops.append((t0, out.clock.time()))


def all_ops(scn):
    ops = []
    if scn.get("connect") is not None:
        c = dict(scn["connect"])
        c["op"] = "connect"
        ops.append(c)
    ops.extend(scn.get("ops") or [])
    return ops


def run(scn, async_=None, lock_factory=None, keep_tmp=False, before_op=None):
    """Run the whole scenario; never raises for library exceptions (they are recorded per op)."""
    out = build(scn, async_, lock_factory)
    ops = all_ops(scn)
    out.ops = ops
    try:
        if out.api == "sync":
            for i, op in enumerate(ops):
                t0 = out.clock.time()
                n0 = _nstreams(out)
                if before_op:
                    before_op(out, i, op)
                try:
                    r = run_op_sync(out.device, op, i, out)
                except Watchdog as w:
                    out.watchdog = (i, str(w))
                    _record(out, i, exc=w, t0=t0, n0=n0)
                    break
                except env.HarnessError:
                    raise
                except (Exception, CallbackAbort) as e:  # noqa
                    _record(out, i, exc=e, t0=t0, n0=n0)
                else:
                    _record(out, i, r, t0=t0, n0=n0)
        else:
            async def main():
                for i, op in enumerate(ops):
                    t0 = out.clock.time()
                    n0 = _nstreams(out)
                    if before_op:
                        before_op(out, i, op)
                    try:
                        r = await run_op_async(out.device, op, i, out)
                    except Watchdog as w:
                        out.watchdog = (i, str(w))
                        _record(out, i, exc=w, t0=t0, n0=n0)
                        break
                    except env.HarnessError:
                        raise
                    except (Exception, CallbackAbort) as e:  # noqa
                        _record(out, i, exc=e, t0=t0, n0=n0)
                    else:
                        _record(out, i, r, t0=t0, n0=n0)
            run_async(main())
    finally:
        if out.tmpdir and not keep_tmp:
            shutil.rmtree(out.tmpdir, ignore_errors=True)
    return out
