"""Run several operations concurrently on one connected device under a harness-owned schedule."""
import asyncio

from . import env, runner
from .sched import ThreadScheduler, AsyncScheduler, CoopLock, CoopAsyncLock, SchedulerAbort
from .transports import Watchdog

L = env.lib()

# ----------------------------------------------------------------------------- store observer (no source change)
OBS = {"puts": 0, "dropped_clse": [], "dropped_clse_with_entry": [], "active": False, "entries": {}}
_Store = L.hidden_helpers._AdbPacketStore
_orig_put = _Store.put
_orig_get = _Store.get
_orig_clear = _Store.clear
_orig_clear_all = _Store.clear_all


def _entries(store):
    return OBS["entries"].setdefault(id(store), set())


def _observed_put(self, arg0, arg1, cmd, data):
    _orig_put(self, arg0, arg1, cmd, data)
    if OBS["active"]:
        OBS["puts"] += 1
        ent = _entries(self)
        if cmd == L.constants.CLSE:
            try:
                kept = (arg0, arg1) in self
            except Exception:  # noqa
                kept = True
            if not kept:
                # K1 is precisely: the CLSE of a stream for which NOTHING is parked (no entry).  A CLSE dropped although an earlier packet
                # of that pair was parked and never cleared is a different defect.
                (OBS["dropped_clse_with_entry"] if (arg0, arg1) in ent else OBS["dropped_clse"]).append((arg0, arg1))
        else:
            ent.add((arg0, arg1))


def _observed_get(self, arg0, arg1):
    r = _orig_get(self, arg0, arg1)
    if OBS["active"] and r[0] == L.constants.CLSE:
        _entries(self).discard((r[1], r[2]))
    return r


def _observed_clear(self, arg0, arg1):
    if OBS["active"]:
        _entries(self).discard((arg0, arg1))
    return _orig_clear(self, arg0, arg1)


def _observed_clear_all(self):
    if OBS["active"]:
        _entries(self).clear()
    return _orig_clear_all(self)


_Store.put = _observed_put
_Store.get = _observed_get
_Store.clear = _observed_clear
_Store.clear_all = _observed_clear_all


def obs_reset():
    OBS.update(puts=0, dropped_clse=[], dropped_clse_with_entry=[], active=True, entries={})


class ConcOutcome(object):
    pass


def trace_targets(level):
    """Code objects in which every line is a yield point."""
    if not level:
        return set()
    mgr = L.adb_device._AdbIOManager
    store = L.hidden_helpers._AdbPacketStore
    t = {mgr.read.__code__, mgr.send.__code__, _orig_put.__code__, _orig_get.__code__, store.find.__code__, _orig_clear.__code__, store.find_allow_zeros.__code__}
    if level == "fs":
        d = L.adb_device.AdbDevice
        return {d._filesync_send.__code__, d._filesync_flush.__code__, d._push.__code__, d._pull.__code__, d._filesync_read_buffered.__code__, d._filesync_read.__code__}
    if level == "open":
        t = {L.adb_device.AdbDevice._open.__code__}
    elif level == "all":
        t |= {L.adb_device.AdbDevice._open.__code__, L.adb_device.AdbDevice._read_until.__code__}
    return t


def run_concurrent(scn, sched_tape=(), plan=None, trace=None, trace_opcodes=False, max_steps=20000, local_id_start=None):
    """scn: like a runner scenario; scn["ops"] run concurrently after a (main-thread) connect."""
    api = scn.get("api", "sync")
    holder = [None]
    obs_reset()
    res = ConcOutcome()
    try:
        if api == "sync":
            out = runner.build(scn, async_=False, lock_factory=lambda: CoopLock(lambda: holder[0]))
            dev = out.device
            dev.connect(**runner.connect_kwargs(scn.get("connect") or {}, out))
            if local_id_start is not None:
                dev._local_id = local_id_start
            sched = ThreadScheduler(sched_tape, plan, max_steps, trace_targets(trace), trace_opcodes)
            holder[0] = sched
            out.core.yield_hook = sched.yield_point
            ops = scn["ops"]
            for i, op in enumerate(ops):
                sched.spawn(lambda op=op, i=i: runner.run_op_sync(dev, op, i, out))
            sched.run()
            workers = [(w.result, w.exc) for w in sched.workers]
        else:
            out = runner.build(scn, async_=True, lock_factory=lambda: CoopAsyncLock(lambda: holder[0]))
            dev = out.device
            sched = AsyncScheduler(sched_tape, plan, max_steps)
            holder[0] = sched

            async def main():
                await dev.connect(**runner.connect_kwargs(scn.get("connect") or {}, out))
                if local_id_start is not None:
                    dev._local_id = local_id_start
                out.core.yield_hook = sched.yield_point
                for i, op in enumerate(scn["ops"]):
                    sched.spawn(lambda op=op, i=i: runner.run_op_async(dev, op, i, out))
                await sched.run()
            runner.run_async(main())
            workers = [(w["result"], w["exc"]) for w in sched.workers]
    finally:
        OBS["active"] = False
    res.out = out
    res.sched = sched
    res.results = []
    for r, e in workers:
        if e is None:
            res.results.append({"ok": r})
        elif isinstance(e, SchedulerAbort):
            res.results.append({"exc": "SchedulerAbort", "msg": "aborted by the controller"})
        elif isinstance(e, Watchdog):
            res.results.append({"exc": "Watchdog", "msg": str(e)})
        elif isinstance(e, env.HarnessError):
            raise e
        else:
            res.results.append(runner.exc_result(e))
    res.excs = [e for _, e in workers]
    res.puts = OBS["puts"]
    res.dropped_clse = list(OBS["dropped_clse"])
    res.dropped_clse_with_entry = list(OBS["dropped_clse_with_entry"])
    res.deadlock = sched.deadlock
    res.budget_exhausted = sched.budget_exhausted
    res.steps = sched.step
    res.switches = sched.switches
    res.log = sched.log
    return res
