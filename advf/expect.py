"""Model-side expected results of operations against a healthy (non-failing) device configuration."""
from .sim import make_content
from .harness import Violation


def expected(case, op, dev_cfg=None):
    """Return ("ok", value) or ("exc", TypeName) for `op` on a healthy device with config dev_cfg."""
    cfg = dev_cfg if dev_cfg is not None else case["device"]
    name = op["op"]
    if name in ("shell", "exec_out", "streaming_shell", "root"):
        prefix = {"shell": b"shell:", "streaming_shell": b"shell:", "exec_out": b"exec:", "root": b"root:"}[name]
        dest = prefix + (op["cmd"].encode("utf8") if name != "root" else b"")
        if any(dest.startswith(pre) for pre in (cfg.get("ignore_open") or ())):
            return ("exc", "TIMEOUT")
        for pre, delay in (cfg.get("open_delay") or {}).items():
            if dest.startswith(pre) and delay > op.get("read_timeout_s", 10.0):
                return ("exc", "TIMEOUT")
        chunks = (cfg.get("services") or {}).get(dest)
        if chunks is None:
            chunks = cfg.get("default_service") or []
        chunks = [bytes(c) for c in chunks]
        if name == "root":
            return ("ok", None)
        decode = op.get("decode", True)
        if name == "streaming_shell":
            if "take" in op:
                chunks = chunks[:op["take"]]
            return ("ok", [c.decode("utf8", "backslashreplace") for c in chunks] if decode else chunks)
        joined = b"".join(chunks)
        return ("ok", joined.decode("utf8", "backslashreplace") if decode else joined)
    if name == "list":
        dents = (cfg.get("dirs") or {}).get(op["path"].encode("utf8"), [])
        return ("ok", [(bytes(nm), m, sz, mt) for (m, sz, mt, nm) in dents])
    if name == "stat":
        return ("ok", stat_of(cfg, op["path"].encode("utf8")))
    if name == "pull":
        f = (cfg.get("fs") or {}).get(op["path"].encode("utf8"))
        if f is None:
            return ("exc", "AdbCommandFailureException")
        return ("ok", make_content(f["content"]))
    if name == "push":
        return ("ok", None)
    if name == "reboot":
        return ("ok", None)
    if name == "connect":
        return ("ok", True)
    if name == "close":
        return ("ok", None)
    raise ValueError(name)


def stat_of(cfg, path):
    st = (cfg.get("stats") or {}).get(path)
    if st is not None:
        return tuple(st)
    f = (cfg.get("fs") or {}).get(path)
    if f is not None:
        return (f.get("mode", 0o100644), len(make_content(f["content"])) & 0xFFFFFFFF, f.get("mtime", 0))
    return (0, 0, 0)


def compare(case, op, res, dev_cfg=None):
    """Violation if `res` (runner result dict) differs from the model's expectation."""
    kind, val = expected(case, op, dev_cfg)
    if kind == "exc":
        if val == "TIMEOUT":
            if res.get("exc") not in ("AdbTimeoutError", "TcpTimeoutException"):
                return Violation("wrong-result", "op %r: expected a timeout error, got %r" % (_b(op), _b(res)))
            return None
        if res.get("exc") != val:
            return Violation("wrong-result", "op %r: expected %s, got %r" % (_b(op), val, _b(res)))
        return None
    if "exc" in res:
        return Violation("unexpected-exception", "op %r: %s: %s" % (_b(op), res["exc"], res["msg"]))
    got = res["ok"]
    if isinstance(val, tuple):
        got = tuple(got)
    if got != val:
        return Violation("wrong-result", "op %r:\n expected %s\n got      %s" % (_b(op), _b(val), _b(got)))
    return None


def _b(x):
    r = repr(x)
    return r if len(r) <= 400 else r[:400] + "...(%d chars)" % len(r)


def check_push_record(op, rec, now_range=None):
    """Compare one SEND transaction recorded by the simulator with the push op that caused it."""
    src = op["src"]
    content = make_content(src["content"])
    spec = ("%s,%d" % (op["path"], int(op.get("mode", 0o100770)))).encode("utf8")
    if rec["spec"] != spec:
        return Violation("push-wrong-send-spec", "expected %r got %r" % (spec, rec["spec"]))
    if rec["content"] != content:
        return Violation("push-wrong-content", "expected %d bytes, device got %d bytes (first difference at %s)" % (len(content), len(rec["content"]), _first_diff(content, rec["content"])))
    if any(c > 65536 for c in rec["chunks"]):
        return Violation("push-data-record-too-large", repr(rec["chunks"]))
    mt = op.get("mtime", 0)
    if mt:
        if rec["mtime"] != mt:
            return Violation("push-wrong-mtime", "expected %r got %r" % (mt, rec["mtime"]))
    elif now_range is not None:
        lo, hi = now_range
        if not (int(lo) <= rec["mtime"] <= int(hi) + 1):
            return Violation("push-wrong-mtime", "mtime=0 -> expected current time in [%d,%d], got %r" % (lo, hi, rec["mtime"]))
    return None


def _first_diff(a, b):
    n = min(len(a), len(b))
    for i in range(n):
        if a[i] != b[i]:
            return i
    return n
